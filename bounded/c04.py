"""C04 bounded driver: run-to-completion, lossless, ordered processing (one thread /
one consumer task; thread interleavings are outside the family, see DESIGN.md).

Machines whose transitions raise and send events to their own machine (also from entry
actions during start), driven by bursts from the caller (send, send_events) and, on the
async engine, by several concurrent producer tasks.  Observed through on_event_received:
  * every accepted external event is received exactly once, each producer's events in order;
  * no re-entrant processing: _process_event is never entered while another is in flight;
  * when the next event is received no eventless (always) transition is still enabled;
  * events raised by actions are received after the event that raised them has completed."""
import asyncio
import copy
import itertools
import random

from bounded import machines as M

CONTRACT_PROPS = ["C04"]
RULE = "generated machines with raise actions and always transitions x bursts (1..3 producers x <= 8 events each; one family above maxIterations); non-trivial = at least one raised event was processed"
BOUND = "600 (quick) / 6000 (thorough) machines, bursts <= 24 events, maxIterations 12 (burst family: 30 events)"


def cases(tier, seed):
    n = 600 if tier == "quick" else 6000
    rng = random.Random(seed * 982451653 + 23)
    yield {"config": BURST_CFG, "producers": [["T"] * 30], "engine": "sync", "kinds": {}, "family": "burst"}
    yield {"config": BURST_CFG, "producers": [["T"] * 30], "engine": "async", "kinds": {}, "family": "burst"}
    for eng in ("sync", "async"):     # regression of the repaired start()-time re-entrancy (an initial always-transition raising an event)
        yield {"config": START_RAISE_CFG, "producers": [["E1"]], "engine": eng, "kinds": {}, "family": "start-raise"}
    for c in M.gen_cases(seed * 982451653 + 1, n, features={"raise": 0.35, "always": 0.15, "parallel": 0.3, "trans": 0.6}):
        k = rng.randint(1, 3)
        c["producers"] = [[f"{rng.choice(M.EVENTS)}" for _ in range(rng.randint(1, 8))] for _ in range(k)]
        c["engine"] = rng.choice(["sync", "async"])
        c["family"] = "gen"
        yield c


START_RAISE_CFG = {"id": "m", "initial": "a", "maxIterations": 12, "context": {"n": 0}, "states": {
    "a": {"always": {"target": "#m.b", "actions": [{"type": "xstate.raise", "params": {"event": {"type": "E2"}}}]}}, "b": {}},
    "on": {"E2": {"actions": ["inc"]}, "E1": {"actions": ["inc"]}}}
BURST_CFG = {"id": "m", "initial": "a", "maxIterations": 12, "context": {"n": 0},
             "states": {"a": {"on": {"T": {"actions": ["inc"]}}}}}


def describe(case):
    return {"config": case["config"], "producers": case["producers"], "engine": case["engine"], "family": case.get("family", "")}


def from_description(d):
    d = dict(d)
    d["kinds"] = {}
    return d


def input_class(case):
    total = sum(len(p) for p in case["producers"])
    return ",".join(M.features_of(case["config"]) + [case.get("family", ""), case["engine"]] + (["burst-over-limit"] if total > 12 else []))


def _watch(it, log):
    depth = {"d": 0, "max": 0}
    orig = it._process_event
    if asyncio.iscoroutinefunction(orig):
        async def wrapped(ev):
            depth["d"] += 1
            depth["max"] = max(depth["max"], depth["d"])
            try:
                return await orig(ev)
            finally:
                depth["d"] -= 1
    else:
        def wrapped(ev):
            depth["d"] += 1
            depth["max"] = max(depth["max"], depth["d"])
            try:
                return orig(ev)
            finally:
                depth["d"] -= 1
    it._process_event = wrapped

    class P:
        def on_event_received(self, i, ev):
            from xstate_statemachine.events import Event
            unstable = False
            try:
                sel = i._select_transitions(Event(""))
                unstable = any(t.event == "" for t in sel)
            except Exception:
                pass
            log.append((ev.type, dict(getattr(ev, "payload", {}) or {}), unstable, depth["d"]))

        def on_transition(self, *a):
            pass
    it.use(P())
    return depth


def run_case(case):
    from xstate_statemachine import Interpreter, SyncInterpreter, create_machine
    cfg = case["config"]
    mark = len(M.error_log())
    tr = M.Trace()
    m = create_machine(M.materialize(cfg), logic=M.make_logic(cfg, tr))
    log = []
    res = {"log": log}
    if case["engine"] == "sync":
        it = SyncInterpreter(m)
        depth = _watch(it, log)
        try:
            it.start()
        except Exception:
            return {"start_failed": True}
        for p, evs in enumerate(case["producers"]):
            if p % 2 == 0:
                try:
                    it.send_events([{"type": e, "p": p, "k": k} for k, e in enumerate(evs)])
                except Exception:
                    res["aborted"] = True
            else:
                for k, e in enumerate(evs):
                    try:
                        it.send(e, p=p, k=k)
                    except Exception:
                        res["aborted"] = True
        res["status"] = it.status
        res["depth"] = depth["max"]
        res["n"] = it.context.get("n")
        it.stop()
    else:
        async def go():
            it = Interpreter(m)
            depth = _watch(it, log)
            cnt = {"n": 0}
            inner = it._process_event

            async def guard(ev):
                cnt["n"] += 1
                if cnt["n"] > 3 * M.SPIN_LIMIT:
                    raise KeyboardInterrupt()
                return await inner(ev)
            it._process_event = guard
            try:
                await it.start()
            except Exception:
                return {"start_failed": True}

            async def producer(p, evs):
                for k, e in enumerate(evs):
                    await it.send(e, p=p, k=k)
                    if k % 2:
                        await asyncio.sleep(0)
            await asyncio.gather(*[producer(p, evs) for p, evs in enumerate(case["producers"])])
            for _ in range(400):
                await asyncio.sleep(0)
                t = it._event_loop_task
                if (t is not None and t.done()) or (it._event_queue.empty() and not it._processing):
                    break
            r = {"status": it.status, "depth": depth["max"], "n": it.context.get("n"), "spin": cnt["n"] > 3 * M.SPIN_LIMIT}
            try:
                await it.stop()
            except BaseException:
                pass
            return r
        try:
            res.update(asyncio.run(asyncio.wait_for(go(), 15)))
        except BaseException:
            res["spin"] = True
    res["limit"] = bool(M.limit_hits(mark))
    return res


def post_check(case, res):
    out = []
    if res.get("start_failed") or res.get("spin"):
        return out
    e = case["engine"]
    log = res["log"]
    if res.get("depth", 0) > 1:
        out.append({"key": f"rtc/{e}:re-entrant-processing", "detail": f"depth {res['depth']}"})
    if any(u for _, _, u, _ in log) and not res.get("limit"):
        bad = next(x for x in log if x[2])
        out.append({"key": f"rtc/{e}:next-event-started-before-always-settled", "detail": str(bad)})
    if res.get("status") not in ("running",):
        return out      # machine completed / failed: later events are legitimately ignored (C10/C14)
    if res.get("aborted"):
        return out
    if res.get("limit") and case.get("family") != "burst":
        return out      # a chain cut by the maxIterations breaker: what is dropped then is C13's subject (and the burst family's)
    ext = [(pl["p"], pl["k"]) for t, pl, _, _ in log if "p" in pl]
    sent = [(p, k) for p, evs in enumerate(case["producers"]) for k in range(len(evs))]
    from collections import Counter
    ce, cs = Counter(ext), Counter(sent)
    if ce != cs:
        missing = sorted((cs - ce).elements())[:5]
        dup = sorted((ce - cs).elements())[:5]
        out.append({"key": f"rtc/{e}:lost-or-duplicated-external-events", "detail": f"sent {len(sent)} received {len(ext)} missing={missing} dup={dup} limit-hit={res.get('limit')}"})
    else:
        for p in range(len(case["producers"])):
            ks = [k for (pp, k) in ext if pp == p]
            if ks != sorted(ks):
                out.append({"key": f"rtc/{e}:per-producer-order", "detail": f"producer {p}: {ks}"})
                break
    return out


def nontrivial(case, res):
    return any("p" not in pl for _, pl, _, _ in res.get("log", []))

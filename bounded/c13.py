"""C13 bounded driver: every macrostep terminates.

Self-feeding chains of every length below, at and above maxIterations (=10 here)
through: always-transitions (self loop, two-state ping-pong), an action raising its
own trigger, an onDone that re-completes its own state, self-enqueueing
enqueueActions expansion; at start() or by an event; both engines.  Expected:
start()/send() return (watchdog), chains shorter than the bound run to their natural
end (exact counter), longer ones are cut with an 'Exceeded' error log, the
configuration is legal afterwards and the next event is still answered; a burst of
external events larger than the bound is processed completely."""
import asyncio
import itertools

from bounded import machines as M

CONTRACT_PROPS = ["C13"]
RULE = "cycle kinds x chain lengths {2, 9, 10, 11, 25} x trigger (start / event) x engine; non-trivial = the chain ran at least 2 rounds"
BOUND = "maxIterations = 10; chain lengths up to 25; bursts of 35 external events; exhaustive over the listed families"
LIMIT = 10
KS = [2, 9, 10, 11, 25]


def _machine(kind, K, at_start):
    ctx = {"n": 0, "pings": 0}
    ping = {"PING": {"actions": ["ping"]}}
    if kind == "always-self":
        st = {"a": {"always": [{"guard": f"lt{K}", "actions": ["inc"], "target": "#m.a", "reenter": True}], "on": ping}}
        init = "a" if at_start else "idle"
    elif kind == "always-internal":
        st = {"a": {"always": [{"guard": f"lt{K}", "actions": ["inc"]}], "on": ping}}
        init = "a" if at_start else "idle"
    elif kind == "pingpong":
        st = {"a": {"always": [{"guard": f"lt{K}", "actions": ["inc"], "target": "#m.b"}], "on": ping},
              "b": {"always": [{"guard": f"lt{K}", "actions": ["inc"], "target": "#m.a"}], "on": ping}}
        init = "a" if at_start else "idle"
    elif kind == "raise-own":
        st = {"a": {"on": {"GO": {"guard": f"lt{K}", "actions": ["inc", {"type": "xstate.raise", "params": {"event": {"type": "GO"}}}]}, **ping},
                    "entry": ([{"type": "xstate.raise", "params": {"event": {"type": "GO"}}}] if at_start else [])}}
        init = "a"
    elif kind == "always-raise":
        st = {"a": {"on": {"GO": "#m.b", **ping}, "entry": ([{"type": "xstate.raise", "params": {"event": {"type": "GO"}}}] if at_start else [])},
              "b": {"always": [{"guard": f"lt{K}", "actions": ["inc", {"type": "xstate.raise", "params": {"event": {"type": "GO"}}}], "target": "#m.a"}],
                    "on": ping}}
        init = "a"
    elif kind == "ondone-recomplete":
        st = {"a": {"initial": "f", "states": {"f": {"type": "final"}, "w": {}},
                    "onDone": [{"guard": f"lt{K}", "actions": ["inc"], "target": "#m.a.f"}, {"target": "#m.a.w"}], "on": ping}}
        init = "a" if at_start else "idle"
    elif kind == "enqueue-self":
        st = {"a": {"on": {"GO": {"actions": ["expand"]}, **ping}, "entry": (["expand"] if at_start else [])}}
        init = "a"
    else:
        raise ValueError(kind)
    if kind != "always-raise":
        st["idle"] = {"on": {"GO": "#m.a", **ping}}
    return {"id": "m", "initial": init, "maxIterations": LIMIT, "context": ctx, "states": st}


def cases(tier, seed):
    for kind in ("always-self", "always-internal", "pingpong", "raise-own", "always-raise", "ondone-recomplete", "enqueue-self"):
        for K in KS:
            for at_start in (True, False):
                for eng in ("sync", "async"):
                    yield {"kind": kind, "K": K, "at_start": at_start, "engine": eng}
    for eng in ("sync", "async"):
        for N in (5, 10, 11, 35):
            yield {"kind": "burst", "K": N, "at_start": False, "engine": eng}


def describe(case):
    return dict(case)


def from_description(d):
    return dict(d)


def input_class(case):
    return f"{case['kind']},{case['engine']},{'over' if case['K'] > LIMIT else 'under'},{case['kind']}@{'start' if case['at_start'] else 'event'}"


def _logic(K):
    from xstate_statemachine import MachineLogic
    from xstate_statemachine.actions import enqueue_actions

    def inc(i, c, e, a):
        c["n"] += 1

    def ping(i, c, e, a):
        c["pings"] += 1
    guards = {f"lt{k}": (lambda c, e, k=k: c["n"] < k) for k in KS + [35]}
    return MachineLogic(actions={"inc": inc, "ping": ping}, guards=guards)


def _cfg(case):
    import copy
    if case["kind"] == "burst":
        return {"id": "m", "initial": "a", "maxIterations": LIMIT, "context": {"n": 0, "pings": 0},
                "states": {"a": {"on": {"TICK": {"actions": ["inc"]}, "PING": {"actions": ["ping"]}}}}}
    cfg = _machine(case["kind"], case["K"], case["at_start"])
    if case["kind"] == "enqueue-self":
        K = case["K"]

        def cb(args):
            args["context"]["n"] += 1
            if args["context"]["n"] < K:
                args["enqueue"]({"type": "xstate.enqueueActions", "params": {"callback": cb}})
        exp = {"type": "xstate.enqueueActions", "params": {"callback": cb}}

        def sub(x):
            return [exp if a == "expand" else a for a in x]
        a = cfg["states"]["a"]
        a["entry"] = sub(a.get("entry", []))
        a["on"]["GO"]["actions"] = sub(a["on"]["GO"]["actions"])
    return cfg


def run_case(case):
    from xstate_statemachine import Interpreter, SyncInterpreter, create_machine
    from bounded.c01 import _legal
    mark = len(M.error_log())
    cfg = _cfg(case)
    m = create_machine(cfg, logic=_logic(case["K"]))
    res = {"hang": False}
    if case["engine"] == "sync":
        it = SyncInterpreter(m).start()
        if case["kind"] == "burst":
            it.send_events(["TICK"] * case["K"])
        elif not case["at_start"]:
            it.send("GO")
        n_after = it.context["n"]
        it.send("PING")
        res.update(n=n_after, pings=it.context["pings"], status=it.status, legal=_legal(it._active_state_nodes, m))
        it.stop()
    else:
        async def go():
            it = Interpreter(m)
            beats = [0]

            async def heart():
                while True:
                    beats[0] += 1
                    await asyncio.sleep(0)
            hb = asyncio.create_task(heart())
            await it.start()

            async def drain():
                for _ in range(3000):
                    await asyncio.sleep(0)
                    if it._event_queue.empty() and not it._processing:
                        return True
                return False
            await drain()
            if case["kind"] == "burst":
                await it.send_events(["TICK"] * case["K"])
            elif not case["at_start"]:
                await it.send("GO")
            ok = await drain()
            n_after = it.context["n"]
            await it.send("PING")
            ok2 = await drain()
            res.update(n=n_after, pings=it.context["pings"], status=it.status, legal=_legal(it._active_state_nodes, m),
                       drained=ok and ok2, beats=beats[0])
            hb.cancel()
            await it.stop()
        asyncio.run(asyncio.wait_for(go(), 12))
    res["exceeded"] = len(M.limit_hits(mark)) + len([x for x in M.error_log()[mark:] if "Nested action expansion exceeded" in x])
    return res


def post_check(case, res):
    out = []
    K, kind = case["K"], case["kind"]
    e = case["engine"]
    if res.get("legal"):
        out.append({"key": f"terminate/{e}:legal-after-cut", "detail": str(res["legal"])})
    if res.get("status") != "running":
        out.append({"key": f"terminate/{e}:status", "detail": str(res.get("status"))})
    if res.get("pings") != 1:
        out.append({"key": f"terminate/{e}:next-event-not-answered", "detail": f"pings={res.get('pings')}"})
    if e == "async" and not res.get("drained", True):
        out.append({"key": f"terminate/{e}:run-loop-never-idle", "detail": ""})
    if kind == "burst":
        if res.get("n") != K:
            out.append({"key": f"terminate/{e}:external-events-discarded", "detail": f"sent {K}, processed {res.get('n')}"})
        return out
    bound = 50 if kind == "enqueue-self" else LIMIT
    if K < bound - 1:
        if res.get("n") != K:
            out.append({"key": f"terminate/{e}:short-chain-did-not-run-to-its-end", "detail": f"K={K} n={res.get('n')}"})
        if res.get("exceeded"):
            out.append({"key": f"terminate/{e}:short-chain-cut", "detail": f"K={K}"})
    if K > bound + 2 and kind != "enqueue-self":
        if res.get("n", 0) >= K:
            out.append({"key": f"terminate/{e}:long-chain-not-cut", "detail": f"K={K} n={res.get('n')}"})
        if not res.get("exceeded"):
            out.append({"key": f"terminate/{e}:cut-without-error-log", "detail": f"K={K} n={res.get('n')}"})
    return out


def nontrivial(case, res):
    return res.get("n", 0) >= 2

"""C03 bounded driver: action-trace oracle on the real engines.

Every state of a generated machine has one entry marker `en:<id>` and one exit
marker `ex:<id>`; transitions have `act:*` markers.  Over each processed event
the recorded trace is replayed against the pre-configuration:
  * `ex:s` needs s active and no active proper descendant of s (children exit first), removes s;
  * `en:s` needs s inactive and its parent active (parents enter first), adds s;
  * the final set must equal the post-configuration  (=> entries - exits = change in activity, once each);
  * inside one transition (segments cut by the on_transition hook) every exit precedes every
    transition action, which precede every entry;
  * states outside the subtree of the transition's domain keep their activity and see no marker;
  * every marker saw the triggering event (never a synthetic entry.<id>/exit.<id> when a real event exists).
"""
import copy

from bounded import machines as M

CONTRACT_PROPS = ["C03"]
RULE = "generated machines x event sequences on sync and async engines; one trace segment per executed transition; non-trivial = a transition with at least one exit and one entry"
BOUND = "900 (quick) / 9000 (thorough) machines <= 7 states, <= 5 events, both engines"


def cases(tier, seed):
    n = 900 if tier == "quick" else 9000
    yield from M.gen_cases(seed * 15485863 + 5, n, features={"parallel": 0.4, "always": 0.05})


def describe(case):
    return {"config": case["config"], "events": case["events"]}


def from_description(d):
    return {"config": d["config"], "events": d["events"]}


def input_class(case):
    return ",".join(M.features_of(case["config"]))


def _anc(a, n):   # a is ancestor-or-self of n (ids)
    return n == a or n.startswith(a + ".")


def check_segment(pre, post, seg, tinfo, out, eng):
    """seg: list of (marker, event_type) recorded while ONE transition executed."""
    active = set(pre)
    phase = 0    # 0 exits, 1 actions, 2 entries
    for name, et in seg:
        if name.startswith("ex:"):
            s = name[3:]
            if phase > 0:
                out.append({"key": f"trace/{eng}:exit-after-action-or-entry", "detail": f"{seg}"})
                return
            if s not in active:
                out.append({"key": f"trace/{eng}:exit-of-inactive-state", "detail": f"{s} {seg}"})
                return
            if any(x != s and _anc(s, x) for x in active):
                out.append({"key": f"trace/{eng}:parent-exited-before-child", "detail": f"{s} {seg}"})
                return
            active.discard(s)
        elif name.startswith("en:"):
            s = name[3:]
            phase = 2
            if s in active:
                out.append({"key": f"trace/{eng}:entered-while-active", "detail": f"{s} {seg}"})
                return
            par = s.rsplit(".", 1)[0] if "." in s else None
            if par is not None and par not in active:
                out.append({"key": f"trace/{eng}:child-entered-before-parent", "detail": f"{s} {seg}"})
                return
            active.add(s)
        elif name.startswith("act:") or name == "inc":
            if phase == 2:
                out.append({"key": f"trace/{eng}:transition-action-after-entry", "detail": f"{seg}"})
                return
            phase = 1
    if active != set(post):
        out.append({"key": f"trace/{eng}:accounting", "detail": f"replayed {sorted(active)} != post {sorted(post)} seg={seg}"})
        return
    # frame: states outside the domain subtree untouched
    src, tgt = tinfo
    if tgt is not None:
        touched = {n[3:] for n, _ in seg if n[:3] in ("en:", "ex:")}
        # least common proper ancestor of source and target (the transition's domain per the statement)
        a = src
        while a and not (_anc(a, tgt) and a != tgt and (a != src or True)):
            a = a.rsplit(".", 1)[0] if "." in a else ""
        if src == tgt or _anc(tgt, src):
            a = tgt.rsplit(".", 1)[0] if "." in tgt else tgt
        if a:
            bad = [t for t in touched if not _anc(a, t)]
            if bad:
                out.append({"key": f"trace/{eng}:outside-domain-touched", "detail": f"domain={a} touched={bad}"})


def _instrument(it, tr, segs):
    mark = {"n": 0}

    class P:
        def on_transition(self, i, before, after, t):
            seg = tr.actions[mark["n"]:]
            mark["n"] = len(tr.actions)
            tgt = None
            if t.target_str:
                try:
                    tgt = i._resolve_target_state_robustly(t).id if hasattr(i, "_resolve_target_state_robustly") else i._resolve_target_state_node(t).id
                except Exception:
                    tgt = None
            segs.append((sorted(n.id for n in before), sorted(n.id for n in after), list(seg), (t.source.id, tgt), t.event))

        def on_event_received(self, i, ev):
            mark["n"] = len(tr.actions)
    it.use(P())


def run_case(case):
    import asyncio
    from xstate_statemachine import Interpreter, SyncInterpreter, create_machine
    cfg, events = case["config"], case["events"]
    res = {}
    # sync
    tr = M.Trace()
    m = create_machine(M.materialize(cfg), logic=M.make_logic(cfg, tr))
    it = SyncInterpreter(m)
    segs = []
    try:
        it.start()
        _instrument(it, tr, segs)
        for ev in events:
            try:
                it.send(ev, tag=1)
            except Exception:
                pass
        it.stop()
        res["sync"] = segs
    except Exception:
        res["sync"] = None

    async def go():
        tr2 = M.Trace()
        m2 = create_machine(M.materialize(cfg), logic=M.make_logic(cfg, tr2))
        it2 = Interpreter(m2)
        segs2 = []
        n = {"k": 0}
        orig = it2._process_event

        async def counted(ev):
            n["k"] += 1
            if n["k"] > M.SPIN_LIMIT:
                raise KeyboardInterrupt()
            return await orig(ev)
        it2._process_event = counted
        try:
            await it2.start()
        except Exception:
            return None
        _instrument(it2, tr2, segs2)
        for ev in events:
            await it2.send(ev, tag=1)
            for _ in range(200):
                await asyncio.sleep(0)
                t = it2._event_loop_task
                if (t is not None and t.done()) or (it2._event_queue.empty() and not it2._processing):
                    break
        try:
            await it2.stop()
        except BaseException:
            pass
        return None if n["k"] > M.SPIN_LIMIT else segs2
    try:
        res["async"] = asyncio.run(asyncio.wait_for(go(), 15))
    except BaseException:
        res["async"] = None
    return res


def post_check(case, res):
    out = []
    for eng in ("sync", "async"):
        segs = res.get(eng)
        if not segs:
            continue
        for pre, post, seg, tinfo, tev in segs:
            if pre == post and not any(n[:3] in ("en:", "ex:") for n, _ in seg):
                continue          # targetless / internal: actions only
            before = len(out)
            check_segment(pre, post, seg, tinfo, out, eng)
            # event forwarding: every marker of this transition saw the event that triggered it
            for name, et in seg:
                if et.startswith(("entry.", "exit.")) and not tev.startswith("___"):
                    out.append({"key": f"trace/{eng}:synthetic-event-instead-of-trigger", "detail": f"{name} saw {et} (trigger {tev})"})
                    break
            if len(out) > before:
                break
    return out


def nontrivial(case, res):
    for eng in ("sync", "async"):
        for pre, post, seg, tinfo, tev in (res.get(eng) or []):
            if any(n.startswith("ex:") for n, _ in seg) and any(n.startswith("en:") for n, _ in seg):
                return True
    return False

"""C12 bounded driver: snapshots as faithful, isolated resume points.

For every prefix length k of every event sequence: snapshot after k events, restore
into a fresh interpreter over the same machine definition, continue both with the
remaining events and compare configurations, context, status, output and the error
flag step by step (history-dependent behaviour included: the generated machines have
history states).  Also: the snapshot is valid JSON; it is not changed by later
execution; re-snapshotting the restored interpreter reproduces it; single-point
corruptions of a snapshot are rejected with an XStateMachineError subclass."""
import copy
import json
import random

from bounded import machines as M

CONTRACT_PROPS = ["C12"]
RULE = "generated machines (with history, parallel, final states) x event sequences, every crash point k; corruption family = every top-level key deleted or replaced by a wrong-typed value, unknown state ids; non-trivial = continuation changes the configuration after the resume point"
BOUND = "500 (quick) / 5000 (thorough) machines <= 8 states, <= 6 events, every prefix"

DOTTED_CASE = {"config": {"id": "m", "initial": "v1.0", "context": {"n": 0}, "states": {"v1.0": {"on": {"E1": "#m.b"}}, "b": {}}},
               "events": ["ZZ", "E1"], "kinds": {}, "family": "dotted"}


def cases(tier, seed):
    n = 500 if tier == "quick" else 5000
    yield DOTTED_CASE
    from bounded import c11
    for k, c in enumerate(c11.family(tier)):
        if len(c["events"]) >= 3 and (tier != "quick" or k % 3 == 0):
            yield c       # structured history family: snapshot while the history-owning parent is inactive
    yield from M.gen_cases(seed * 122949829 + 17, n, max_nodes=8, features={"history": 0.6, "parallel": 0.35, "raise": 0.05}, ev_len=6)


def describe(case):
    return {"config": case["config"], "events": case["events"], "family": case.get("family", "")}


def from_description(d):
    return dict(d)


def input_class(case):
    tags = M.features_of(case["config"])
    if case.get("family") == "dotted":
        tags.append("dotted-state-key")
    return ",".join(tags)


def _mk(case):
    from xstate_statemachine import SyncInterpreter, create_machine
    tr = M.Trace()
    m = create_machine(M.materialize(case["config"]), logic=M.make_logic(case["config"], tr))
    return m, tr


def run_case(case):
    from xstate_statemachine import SyncInterpreter
    from xstate_statemachine.exceptions import XStateMachineError
    out = {"problems": [], "resumed": 0, "changed_after_resume": False}
    events = case["events"]
    m, tr = _mk(case)
    a = SyncInterpreter(m)
    try:
        a.start()
    except Exception:
        return out
    base_steps = [M.snapshot_of(a)]
    snaps = [a.get_snapshot()]
    snap_dicts = [(a.get_persisted_snapshot(), None)]
    snap_dicts[0] = (snap_dicts[0][0], copy.deepcopy(snap_dicts[0][0]))
    errs = [a.error is not None]
    for ev in events:
        try:
            a.send(ev)
        except Exception:
            pass
        base_steps.append(M.snapshot_of(a))
        snaps.append(a.get_snapshot())
        d = a.get_persisted_snapshot()
        snap_dicts.append((d, copy.deepcopy(d)))
        errs.append(a.error is not None)
    a.stop()
    # isolation: earlier snapshots were not rewritten by later execution
    for k, (live, frozen) in enumerate(snap_dicts):
        if live != frozen:
            out["problems"].append({"key": "snapshot/isolation:changed-by-later-execution", "detail": f"k={k}"})
            break
    for k, s in enumerate(snaps):
        try:
            json.loads(s)
        except Exception as e:
            out["problems"].append({"key": "snapshot/valid-json", "detail": f"k={k} {e}"})
            return out
    for k in range(len(events) + 1):
        if base_steps[k]["status"] == "stopped":
            continue
        m2, _ = _mk(case)
        try:
            b = SyncInterpreter.from_snapshot(snaps[k], m2)
        except Exception as e:
            out["problems"].append({"key": f"snapshot/restore:raised-{type(e).__name__}", "detail": f"k={k} {e}"})
            break
        re = json.loads(b.get_snapshot())
        if re != json.loads(snaps[k]):
            out["problems"].append({"key": "snapshot/re-snapshot:differs", "detail": f"k={k}"})
            break
        if (b.error is not None) != errs[k]:
            out["problems"].append({"key": "snapshot/error-flag", "detail": f"k={k}"})
        if b.status == "running":
            pass
        out["resumed"] += 1
        for j, ev in enumerate(events[k:]):
            try:
                b.send(ev)
            except Exception:
                pass
            got, exp = M.snapshot_of(b), base_steps[k + j + 1]
            if got != exp:
                out["problems"].append({"key": "snapshot/resume:continuation-differs", "detail": f"resume at k={k}, after {j + 1} more events: {got} vs uninterrupted {exp}"})
                break
            if exp["config"] != base_steps[k]["config"]:
                out["changed_after_resume"] = True
        b.stop()
        if out["problems"]:
            break
    # corrupt snapshots
    good = json.loads(snaps[0])
    rng = random.Random(len(json.dumps(case["config"])))
    muts = []
    for key in list(good):
        d = copy.deepcopy(good)
        del d[key]
        muts.append((f"del:{key}", d))
        for bad in (5, "x", [1], {"a": 1}, None):
            d = copy.deepcopy(good)
            if type(d[key]) is type(bad):
                continue
            d[key] = bad
            muts.append((f"{key}={bad!r}", d))
    d = copy.deepcopy(good)
    d["configuration"] = ["m.nope"]
    d["state_ids"] = ["m.nope"]
    muts.append(("unknown-state", d))
    for name, d in rng.sample(muts, min(len(muts), 12)) + [("unknown-state", d), ("not-json", "{oops"), ("array", "[1]")]:
        txt = d if isinstance(d, str) else json.dumps(d)
        m3, _ = _mk(case)
        try:
            r = SyncInterpreter.from_snapshot(txt, m3)
        except XStateMachineError:
            continue
        except Exception as e:
            out["problems"].append({"key": f"snapshot/corrupt:raw-{type(e).__name__}", "detail": f"{name}: {e}"})
            break
    return out


def post_check(case, res):
    return list(res.get("problems", []))[:3]


def nontrivial(case, res):
    return res.get("resumed", 0) > 0 and res.get("changed_after_resume", False)

"""C05 bounded driver: the same machine, logic and events on SyncInterpreter,
Interpreter (observed at queue drain) and the pure API must give the same
configurations, context, status, output and action lists (with triggering
events); the pure functions run no user action and leave machine and snapshot
untouched."""
import copy
import json

from bounded import machines as M

CONTRACT_PROPS = ["C05"]
RULE = "generated machines x event sequences on the three engines, compared step by step; runs that hit the maxIterations breaker are excluded (C04/C13 findings); non-trivial = at least one configuration change"
BOUND = "900 (quick) / 9000 (thorough) machines <= 7 states, <= 5 events"


HISTORY_CASE = {"config": {"id": "m", "initial": "w", "context": {"n": 0}, "states": {
    "w": {"initial": "s1", "states": {"s1": {"on": {"E1": "#m.w.s2"}}, "s2": {}, "h": {"type": "history"}},
          "on": {"E2": "#m.out"}},
    "out": {"on": {"E3": "#m.w.h"}}}}, "events": ["E1", "E2", "E3"], "kinds": {}}


def cases(tier, seed):
    n = 900 if tier == "quick" else 9000
    yield HISTORY_CASE        # the recorded input of known finding KF-C05-pure-history
    yield from M.gen_cases(seed * 32452843 + 3, (2 * n) // 3, features={"parallel": 0.4, "raise": 0.05, "history": 0.0})
    yield from M.gen_cases(seed * 32452843 + 4, n // 3, features={"parallel": 0.3, "raise": 0.1, "history": 0.5})


def describe(case):
    return {"config": case["config"], "events": case["events"]}


def from_description(d):
    return {"config": d["config"], "events": d["events"]}


def _has(cfg, pred):
    def walk(c):
        if pred(c):
            return True
        return any(walk(s) for s in (c.get("states") or {}).values())
    return walk(cfg)


def input_class(case):
    tags = M.features_of(case["config"])
    txt = json.dumps(case["config"])
    if '"history"' in txt:
        tags.append("has-history")
    if "xstate.raise" in txt:
        tags.append("has-raise")
    return ",".join(tags)


def run_case(case):
    mark = len(M.error_log())
    rs = M.run_sync(case["config"], case["events"])
    ra = M.run_async(case["config"], case["events"])
    cfg_before = copy.deepcopy(case["config"])
    try:
        rp = M.run_pure(case["config"], case["events"])
    except Exception as e:
        rp = {"error": type(e).__name__, "steps": []}
    rs.pop("interp", None)
    return {"sync": rs, "async": ra, "pure": rp, "limit": bool(M.limit_hits(mark)), "cfg_same": cfg_before == case["config"]}


def post_check(case, res):
    out = []
    if res["limit"] or res["async"].get("spin") or res["sync"].get("start_failed") or res["async"].get("start_failed"):
        return out
    s, a, p = res["sync"], res["async"], res["pure"]
    if s["errors"] or a["errors"]:
        return out       # aborted transitions are reported differently by design (raised vs logged): C07
    for k, (x, y) in enumerate(zip(s["steps"], a["steps"])):
        if x != y:
            out.append({"key": "agree/sync-async:steps", "detail": f"step {k}: sync={x} async={y}"})
            break
    def norm(acts):
        return [(n, "<init>" if et.startswith(("entry.", "exit.", "___xstate")) else et) for n, et in acts]
    if not out and norm(s["actions"]) != norm(a["actions"]):
        out.append({"key": "agree/sync-async:actions", "detail": f"sync={s['actions'][:12]} async={a['actions'][:12]}"})
    if p.get("error"):
        out.append({"key": "agree/pure:raised", "detail": p["error"]})
        return out
    if p.get("user_actions_run"):
        out.append({"key": "pure/ran-user-actions", "detail": str(p["user_actions_run"][:5])})
    if not res["cfg_same"]:
        out.append({"key": "pure/mutated-config", "detail": ""})
    for k, (x, y) in enumerate(zip(s["steps"], p["steps"])):
        xs = dict(x)
        ys = dict(y)
        xs["status"] = {"running": "active"}.get(xs["status"], xs["status"])
        if xs != ys:
            out.append({"key": "agree/sync-pure:steps", "detail": f"step {k}: sync={xs} pure={ys}"})
            break
    return out


def nontrivial(case, res):
    st = res["sync"]["steps"]
    return any(st[i]["config"] != st[i + 1]["config"] for i in range(len(st) - 1))

"""C18 bounded driver: the config front end.

(a) spelling equivalence - a generated machine and a copy in which every construct has been
    re-spelled at random (string / object / one-element-list transitions, `always` vs the
    empty-string event, `cond` vs `guard`, single action vs list, numeric vs string delay keys,
    omitted `initial` with a single child, and every target spelling naming the same state:
    sibling key, dotted path, leading-dot relative, '#m.path', '#customId') must behave
    identically (configurations, context, status, action trace) on the same events;
(b) single-point corruption - every subtree of a valid config replaced by a value of each
    wrong JSON type: create_machine() / start() / the first sends either work or raise an
    XStateMachineError subclass, never a raw TypeError / AttributeError / KeyError / ValueError."""
import copy
import json
import random

from bounded import machines as M

CONTRACT_PROPS = ["C18"]
RULE = "(a) generated machine x one random re-spelling x event sequence; (b) generated machine x every subtree x 5 wrong-typed replacements (sampled in quick); non-trivial = the rewritten config differs / the corruption hit a recognised key"
BOUND = "(a) 600/6000 machines <= 7 states; (b) 60/400 machines, up to 150 corruptions each"
WRONG = [5, "zz", ["zz"], {"zz": 1}, None, True]


def cases(tier, seed):
    n = 600 if tier == "quick" else 6000
    rng = random.Random(seed * 472882027 + 37)
    for c in M.gen_cases(seed * 472882027 + 1, n, features={"parallel": 0.3, "after": 0.15, "history": 0.2}):
        c["mode"] = "spelling"
        c["rseed"] = rng.randrange(1 << 30)
        yield c
    for flat, nest in (("x.y", ["x", "y"]), ("x.y.z", ["x", "y", "z"]), ("x.y.z.w", ["x", "y", "z", "w"]), ("p.q", ["p"]), ("v1.0", [])):
        states = {flat: {}}
        cur = states
        for k in nest:
            cur[k] = {"states": {}}
            if k != nest[-1]:
                cur[k]["initial"] = nest[nest.index(k) + 1]
            cur = cur[k]["states"]
        yield {"mode": "ids", "config": {"id": "m", "initial": flat, "states": states}, "events": ["E1"], "kinds": {}, "path": [flat], "repl": None}
    yield {"mode": "corrupt", "config": {"id": "m", "initial": "a", "states": {"a": {"on": {"E1": {"target": 5}}}, "b": {}}},
           "events": ["E1"], "kinds": {}, "path": ["fixed-nonstring-target"], "repl": 5, "fixed": True}
    # regression input of a fixed defect (known_findings.json "fixed": C01/C18 e3c2b68): `initial` naming a history pseudo-state
    yield {"mode": "corrupt", "config": {"id": "m", "initial": "a", "states": {"a": {"initial": "h", "states": {
               "h": {"type": "history"}, "x": {}}}}}, "events": [], "kinds": {}, "path": ["fixed-initial-names-history"], "repl": "h",
           "fixed": True, "must_reject": True}
    for c in M.gen_cases(seed * 472882027 + 2, 60 if tier == "quick" else 400, max_nodes=5, features={"after": 0.3, "history": 0.3}):
        paths = list(_paths(c["config"], []))
        rng.shuffle(paths)
        for p in paths[: (25 if tier == "quick" else 150)]:
            for w in WRONG:
                yield {"mode": "corrupt", "config": c["config"], "events": c["events"][:3], "kinds": {}, "path": p, "repl": w}


def _paths(node, prefix):
    if isinstance(node, dict):
        for k, v in node.items():
            yield prefix + [k]
            yield from _paths(v, prefix + [k])
    elif isinstance(node, list):
        for i, v in enumerate(node):
            yield prefix + [i]
            yield from _paths(v, prefix + [i])


def describe(c):
    d = {"mode": c["mode"], "config": c["config"], "events": c["events"]}
    if c["mode"] == "spelling":
        d["rseed"] = c["rseed"]
    else:
        d["path"], d["repl"] = c["path"], c["repl"]
    return d


def from_description(d):
    d = dict(d)
    d["kinds"] = {}
    return d


def input_class(c):
    if c["mode"] == "corrupt":
        tail = c["path"][-1] if c["path"] else ""
        return f"corrupt,{tail}:{type(c['repl']).__name__}"
    return "spelling"


# ----------------------------------------------------------------------------- (a)
def respell(cfg, rseed):
    from xstate_statemachine import MachineLogic, create_machine
    from xstate_statemachine.resolver import resolve_target_state
    rng = random.Random(rseed)
    cfg = copy.deepcopy(cfg)
    ids = {}          # absolute id -> custom id
    try:
        probe = create_machine(copy.deepcopy(cfg), logic=MachineLogic())
    except Exception:
        probe = None

    def names_same_state(spelling, src_path, abs_id):
        """the documented resolver, applied from the source state, reaches the intended state"""
        if probe is None:
            return False
        src, want = probe.get_state_by_id(src_path), probe.get_state_by_id(abs_id)
        if src is None or want is None:
            return False
        try:
            return resolve_target_state(spelling, src) is want
        except Exception:
            return False

    def assign_ids(c, path):
        if path != "m" and c.get("type") != "history" and rng.random() < 0.3:
            cid = "cid_" + path.replace(".", "_")
            c["id"] = cid
            ids[path] = cid
        for k, s in (c.get("states") or {}).items():
            assign_ids(s, f"{path}.{k}")
    assign_ids(cfg, "m")

    def target(t, src_path):
        if not isinstance(t, str) or not t.startswith("#m"):
            return t
        abs_id = t[1:]
        choices = [t]
        if abs_id in ids:
            choices.append("#" + ids[abs_id])
        parent = src_path.rsplit(".", 1)[0] if "." in src_path else None
        if parent and abs_id.startswith(parent + ".") and abs_id != src_path:
            rel = abs_id[len(parent) + 1:]
            for cand in ("." + rel, rel):             # leading-dot relative; sibling key / dotted path
                if names_same_state(cand, src_path, abs_id):
                    choices.append(cand)
        return rng.choice(choices)

    def tr(t, src, top=True):
        if isinstance(t, list):
            out = [tr(x, src, False) for x in t]
            return out[0] if len(out) == 1 and rng.random() < 0.5 else out
        if isinstance(t, dict):
            t = dict(t)
            if "target" in t:
                t["target"] = target(t["target"], src)
            if "guard" in t and "cond" not in t and rng.random() < 0.5:
                t["cond"] = t.pop("guard")
            elif "cond" in t and "guard" not in t and rng.random() < 0.5:
                t["guard"] = t.pop("cond")
            if "actions" in t and len(t["actions"]) == 1 and rng.random() < 0.5:
                t["actions"] = t["actions"][0]
            if set(t) == {"target"} and rng.random() < 0.5:
                return t["target"]
            if top and rng.random() < 0.3:
                return [t]
            return t
        return t

    def walk(c, path):
        for k in ("entry", "exit"):
            if k in c and len(c[k]) == 1 and rng.random() < 0.5:
                c[k] = c[k][0]
        if "on" in c:
            c["on"] = {e: (None if v is None else tr(v, path)) for e, v in c["on"].items()}
        if "always" in c:
            a = tr(c["always"], path)
            if rng.random() < 0.5:
                c.setdefault("on", {})[""] = a
                del c["always"]
            else:
                c["always"] = a
        if "onDone" in c:
            c["onDone"] = tr(c["onDone"], path)
        if "after" in c:
            c["after"] = {(int(k) if rng.random() < 0.5 else str(k)): tr(v, path) for k, v in c["after"].items()}
        kids = c.get("states") or {}
        real = [k for k, s in kids.items() if s.get("type") != "history"]
        if c.get("type") != "parallel" and len(real) == 1 and c.get("initial") == real[0] and rng.random() < 0.5:
            del c["initial"]
        for k, s in kids.items():
            walk(s, f"{path}.{k}")
    walk(cfg, "m")
    return cfg


# ----------------------------------------------------------------------------- (b)
def corrupt(cfg, path, repl):
    cfg = copy.deepcopy(cfg)
    cur = cfg
    for p in path[:-1]:
        cur = cur[p]
    cur[path[-1]] = repl
    return cfg


def run_case(case):
    from xstate_statemachine.exceptions import XStateMachineError
    if case["mode"] == "spelling":
        alt = respell(case["config"], case["rseed"])
        mark = len(M.error_log())
        a = M.run_sync(case["config"], case["events"])
        b = M.run_sync(alt, case["events"])
        a.pop("interp", None)
        b.pop("interp", None)
        return {"a": a, "b": b, "alt": alt, "changed": alt != case["config"], "limit": bool(M.limit_hits(mark))}
    if case["mode"] == "ids":
        from xstate_statemachine import MachineLogic, create_machine
        try:
            m = create_machine(copy.deepcopy(case["config"]), logic=MachineLogic())
        except XStateMachineError as e:
            return {"stage": "create", "exc": ("library", type(e).__name__), "dups": []}
        except Exception as e:
            return {"stage": "create", "exc": ("raw", type(e).__name__, str(e)[:120]), "dups": []}
        ids, st = [], [m]
        while st:
            n = st.pop()
            ids.append(n.id)
            st.extend(n.states.values())
        return {"stage": "ok", "exc": None, "dups": sorted({i for i in ids if ids.count(i) > 1})}
    cfg = case["config"] if case.get("fixed") else corrupt(case["config"], case["path"], case["repl"])
    from xstate_statemachine import SyncInterpreter, create_machine
    stage, exc = "create", None
    try:
        tr = M.Trace()
        try:
            mcfg = M.materialize(cfg)
        except Exception:
            mcfg = copy.deepcopy(cfg)          # the harness' own rewriting does not apply to a corrupted shape
        m = create_machine(mcfg, logic=M.make_logic(case["config"], tr))
        stage = "start"
        it = SyncInterpreter(m)
        it.start()
        stage = "send"
        for ev in case["events"] + ["E1", "E2", "E3"]:
            try:
                it.send(ev)
            except XStateMachineError:
                pass
        it.stop()
        stage = "ok"
    except XStateMachineError as e:
        exc = ("library", type(e).__name__)
    except Exception as e:
        exc = ("raw", type(e).__name__, str(e)[:120])
    return {"stage": stage, "exc": exc}


def post_check(case, res):
    out = []
    if case["mode"] == "spelling":
        a, b = res["a"], res["b"]
        if a.get("start_failed") != b.get("start_failed"):
            out.append({"key": "spelling:one-spelling-rejected", "detail": f"{a.get('errors')} vs {b.get('errors')} alt={json.dumps(res['alt'], default=str)[:600]}"})
        elif not a.get("start_failed"):
            if a["steps"] != b["steps"]:
                k = next(i for i, (x, y) in enumerate(zip(a["steps"], b["steps"])) if x != y)
                out.append({"key": "spelling:behaviour-differs", "detail": f"step {k}: {a['steps'][k]} vs {b['steps'][k]} alt={json.dumps(res['alt'], default=str)[:900]}"})
            elif a["actions"] != b["actions"]:
                out.append({"key": "spelling:actions-differ", "detail": f"alt={json.dumps(res['alt'], default=str)[:600]}"})
        return out
    if res.get("dups"):
        out.append({"key": "ids:ambiguous-state-ids-accepted", "detail": f"{res['dups']} both denote two different states of {json.dumps(case['config'])[:300]}"})
    if case.get("must_reject") and res["stage"] == "ok":
        out.append({"key": "corrupt/accepted:uninterpretable-definition-accepted", "detail": f"path={case['path']}: created, started and ran without any library error"})
    if res["exc"] and res["exc"][0] == "raw":
        out.append({"key": f"corrupt/{res['stage']}:raw-{res['exc'][1]}", "detail": f"path={case['path']} repl={case['repl']!r}: {res['exc'][2]}"})
    return out


def nontrivial(case, res):
    if case["mode"] == "spelling":
        return res.get("changed", False)
    return res.get("exc") is not None

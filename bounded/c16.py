"""C16 bounded driver: determinism under different set-iteration orders.

Python iterates a set of StateNode objects in hash order, and the default hash is
address-derived, so "another run / heap layout / hash seed" means "another iteration
order of _active_state_nodes and of every set derived from it".  The driver makes that
order an explicit input: StateNode.__hash__ is salted (in the checking process only;
equality stays identity) and every case is run under several salts, on both engines.
All runs must produce identical configurations, contexts and action sequences
(entry/exit order across parallel regions and on deep-history restore included)."""
import copy
import json

from bounded import machines as M

CONTRACT_PROPS = ["C16"]
RULE = "generated parallel-heavy machines (same local names in sibling regions, deep history, shared-ancestor handlers) x event sequences x 5 hash salts x 2 engines; non-trivial = at least two regions acted on one event"
BOUND = "500 (quick) / 5000 (thorough) machines <= 9 states, <= 6 events, 5 salts"
SALTS = [0, 1, 7, 1234567, 987654321]
NAMES = ["idle", "busy", "x"]


def region_machines(seed, n):
    import random
    rng = random.Random(seed)
    for _ in range(n):
        k = rng.randint(2, 4)
        regs = {}
        for r in range(k):
            rid = f"r{r}"
            st = {}
            for nm in NAMES:
                on = {}
                for ev in M.EVENTS:
                    if rng.random() < 0.6:
                        on[ev] = {"target": f"#m.p.{rid}.{rng.choice(NAMES)}", "actions": [f"act:{rid}.{nm}:{ev}"]}
                st[nm] = {"entry": [f"en:m.p.{rid}.{nm}"], "exit": [f"ex:m.p.{rid}.{nm}"], "on": on}
            regs[rid] = {"initial": rng.choice(NAMES), "states": st, "entry": [f"en:m.p.{rid}"], "exit": [f"ex:m.p.{rid}"]}
        regs["h"] = {"type": "history", "history": "deep"}
        cfg = {"id": "m", "initial": "p", "maxIterations": 12, "context": {"n": 0}, "states": {
            "p": {"type": "parallel", "states": regs, "on": {"OUT": "#m.out", "E3": {"actions": ["act:p:E3"]}}, "entry": ["en:m.p"], "exit": ["ex:m.p"]},
            "out": {"on": {"BACK": "#m.p.h", "E1": "#m.p"}, "entry": ["en:m.out"], "exit": ["ex:m.out"]}}}
        evs = [rng.choice(M.EVENTS + ["OUT", "BACK"]) for _ in range(rng.randint(2, 6))]
        yield {"config": cfg, "events": evs, "kinds": {}, "family": "regions"}


def cases(tier, seed):
    n = 500 if tier == "quick" else 5000
    yield from region_machines(seed * 2147483647 + 29, n // 2)
    yield from M.gen_cases(seed * 2147483647 + 31, n // 2, max_nodes=9, features={"parallel": 0.6, "history": 0.3}, ev_len=6)


def describe(case):
    return {"config": case["config"], "events": case["events"], "family": case.get("family", "")}


def from_description(d):
    d = dict(d)
    d["kinds"] = {}
    return d


def input_class(case):
    return ",".join(M.features_of(case["config"]) + [case.get("family", "")])


def run_case(case):
    from xstate_statemachine.models import StateNode
    runs = {}
    orig = StateNode.__dict__.get("__hash__")
    mark = len(M.error_log())
    try:
        for salt in SALTS:
            StateNode.__hash__ = lambda self, _s=salt: hash((_s, self.id))
            rs = M.run_sync(case["config"], case["events"])
            rs.pop("interp", None)
            ra = M.run_async(case["config"], case["events"])
            runs[salt] = (rs, ra)
    finally:
        if orig is None:
            del StateNode.__hash__
        else:
            StateNode.__hash__ = orig
    return {"runs": runs, "limit": bool(M.limit_hits(mark))}


def _norm(acts):
    return [(n, "<init>" if et.startswith(("entry.", "exit.", "___xstate")) else et) for n, et in acts]


def post_check(case, res):
    out = []
    runs = res["runs"]
    base_s, base_a = runs[SALTS[0]]
    for salt in SALTS[1:]:
        rs, ra = runs[salt]
        if rs.get("start_failed") or base_s.get("start_failed"):
            continue
        if rs["steps"] != base_s["steps"]:
            out.append({"key": "determinism/sync:configurations-or-context-depend-on-set-order", "detail": f"salt {salt}"})
            break
        if rs["actions"] != base_s["actions"]:
            d = next((i for i, (x, y) in enumerate(zip(rs["actions"], base_s["actions"])) if x != y), None)
            out.append({"key": "determinism/sync:action-order-depends-on-set-order", "detail": f"salt {salt} first difference at {d}: {rs['actions'][d:d+4] if d is not None else ''} vs {base_s['actions'][d:d+4] if d is not None else ''}"})
            break
        if ra.get("spin") or base_a.get("spin") or ra.get("start_failed"):
            continue
        if ra["steps"] != base_a["steps"] or ra["actions"] != base_a["actions"]:
            out.append({"key": "determinism/async:behaviour-depends-on-set-order", "detail": f"salt {salt}"})
            break
    if not out and not res["limit"] and not base_s.get("start_failed") and not base_a.get("spin") and not base_s["errors"] and not base_a.get("errors"):
        if _norm(base_s["actions"]) != _norm(base_a["actions"]) or base_s["steps"] != base_a["steps"]:
            out.append({"key": "determinism/engines:sync-and-async-differ", "detail": ""})
    return out


def nontrivial(case, res):
    rs = res["runs"][SALTS[0]][0]
    return len(rs.get("actions", [])) > 8

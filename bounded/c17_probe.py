"""Runs in a subprocess: import the generated module(s) WITHOUT running them as a
program, rebuild the machine and print its fingerprint (or the error) as JSON."""
import importlib
import json
import os
import sys

sys.path.insert(0, os.path.dirname(os.path.dirname(os.path.abspath(__file__))))
import logging

logging.disable(logging.CRITICAL)


def main():
    outdir, template, stem, cfgpath = sys.argv[1:5]
    sys.path.insert(0, outdir)
    os.chdir(outdir)
    from bounded.fingerprint import fingerprint
    res = {"imported": [], "error": None}
    before = set(os.listdir(outdir))
    try:
        mods = []
        for name in (stem + "_logic", stem):
            if os.path.exists(os.path.join(outdir, name + ".py")):
                mods.append(importlib.import_module(name))
                res["imported"].append(name)
        logic_mod = mods[0]
        if template.startswith("pythonic"):
            if template == "pythonic-class":
                from xstate_statemachine import StateMachine
                cls = [v for v in vars(logic_mod).values() if isinstance(v, type) and issubclass(v, StateMachine) and v is not StateMachine]
                machine = cls[0].create_machine()
            else:
                machine = logic_mod.build()
        else:
            from xstate_statemachine import create_machine
            cfg = json.load(open(cfgpath))
            if template == "class-json":
                prov = [v for v in vars(logic_mod).values() if isinstance(v, type) and v.__module__ == logic_mod.__name__]
                machine = create_machine(cfg, logic_providers=[prov[0]()]) if prov else create_machine(cfg, logic_modules=[logic_mod])
            else:
                machine = create_machine(cfg, logic_modules=[logic_mod])
        res["fingerprint"] = fingerprint(machine)
    except BaseException as e:
        res["error"] = f"{type(e).__name__}: {e}"[:400]
    res["side_effect_files"] = sorted(set(os.listdir(outdir)) - before - {"__pycache__"})
    print("@@PROBE@@" + json.dumps(res, default=str))


main()

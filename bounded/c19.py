"""C19 bounded driver: Python-defined machines and logic discovery.

(a) a generated config d is expressed through the functional API (State objects +
    build_machine), the class API (a StateMachine subclass created with type()) and the
    builder API (MachineBuilder); each built machine must have the deep fingerprint of
    create_machine(d) and behave identically on the same events; two builds from one
    definition must share no mutable structure (mutating one leaves the other and a third
    build unchanged);
(b) logic discovery: for every action / guard / service name referenced by a config -
    under snake_case or camelCase spelling, from logic_modules, logic_providers or
    MachineLogic subclass methods - create_machine binds it, built-ins / spawn_ directives /
    composite guards need no implementation but their leaf guards do, a missing name fails
    with ImplementationMissingError at creation, and a user implementation named like a
    built-in takes precedence."""
import copy
import json
import random
import types

from bounded import machines as M
from bounded.fingerprint import diff, fingerprint

CONTRACT_PROPS = ["C19"]
RULE = "(a) generated configs x 3 API styles; (b) naming/casing matrix x source kind (module / provider / MachineLogic subclass) x one dropped name; non-trivial = machine with >= 3 states / a name that needed case conversion"
BOUND = "(a) 300 (quick) / 3000 (thorough) configs <= 7 states; (b) exhaustive over 6 names x 2 spellings (same / snake_case) x 3 source kinds x (none | each name dropped)"


def cases(tier, seed):
    n = 300 if tier == "quick" else 3000
    for c in M.gen_cases(seed * 15487469 + 43, n, features={"parallel": 0.3, "after": 0.2, "history": 0.25, "always": 0.0, "raise": 0.0}):
        for style in ("functional", "class", "builder"):
            yield {"mode": "api", "style": style, "config": c["config"], "events": c["events"], "kinds": {}}
    names = ["doThing", "isReady", "fetchData", "leafOne", "leafTwo", "notifyAll"]
    for casing in ("same", "snake"):
        for src in ("module", "provider", "subclass"):
            for drop in [None] + names:
                yield {"mode": "logic", "casing": casing, "src": src, "drop": drop, "config": None, "events": [], "kinds": {}}
    yield {"mode": "logic", "casing": "same", "src": "module", "drop": None, "override": True, "config": None, "events": [], "kinds": {}}
    yield {"mode": "logic", "casing": "same", "src": "provider", "drop": None, "static": True, "config": None, "events": [], "kinds": {}}


def describe(c):
    return {k: v for k, v in c.items() if k != "kinds"}


def from_description(d):
    d = dict(d)
    d["kinds"] = {}
    return d


def input_class(c):
    tags = [c["mode"], c.get("style") or c.get("src") or ""]
    if c.get("override"):
        tags.append("user-named-like-builtin")
    if c.get("static"):
        tags.append("static-provider-methods")
    if c["mode"] == "logic":
        tags.append(f"{c['src']}/{c['casing']}")
    return ",".join(tags)


# ----------------------------------------------------------------------------- (a)
def _state_kwargs(cfg, path):
    kw = {}
    typ = cfg.get("type")
    if typ == "final":
        kw["final"] = True
    if typ == "parallel":
        kw["parallel"] = True
    if typ == "history":
        kw["history"] = cfg.get("history", "shallow")
    for src, dst in (("on", "on"), ("entry", "entry"), ("exit", "exit"), ("after", "after"), ("invoke", "invoke"),
                     ("always", "always"), ("tags", "tags"), ("meta", "meta")):
        if src in cfg:
            kw[dst] = copy.deepcopy(cfg[src])
    if "onDone" in cfg:
        kw["on_done"] = copy.deepcopy(cfg["onDone"])
    return kw


def _states(cfg_states, initial):
    from xstate_statemachine import State
    out = []
    for k, c in cfg_states.items():
        kw = _state_kwargs(c, k)
        if "states" in c:
            kw["states"] = _states(c["states"], c.get("initial"))
        if k == initial:
            kw["initial"] = True
        out.append(State(k, **kw))
    return out


def _logic_fns(cfg, trace):
    from xstate_statemachine import action, guard
    logic = M.make_logic(cfg, trace)
    acts = [action(n)(f) for n, f in logic.actions.items()]
    gds = [guard(n)(f) for n, f in logic.guards.items()]
    return acts, gds, logic


def build(style, cfg, trace):
    from xstate_statemachine import MachineBuilder, State, StateMachine, build_machine
    cfg = M.materialize(cfg)
    acts, gds, logic = _logic_fns(cfg, trace)
    root_kw = {k: v for k, v in _state_kwargs(cfg, "m").items()}
    if style == "functional":
        root = State("", **root_kw) if root_kw else None
        return build_machine(id=cfg["id"], states=_states(cfg["states"], cfg.get("initial")), actions=acts, guards=gds,
                             context=copy.deepcopy(cfg.get("context")), root=root)
    if style == "class":
        ns = {"machine_id": cfg["id"], "initial_context": copy.deepcopy(cfg.get("context"))}
        for s in _states(cfg["states"], cfg.get("initial")):
            ns[s.name] = s
        if root_kw:
            ns["machine_root"] = State("", **root_kw)
        for n, f in logic.actions.items():
            ns["act_" + str(abs(hash(n)))] = __import__("xstate_statemachine").action(n)(lambda self, i, c, e, a, _f=f: _f(i, c, e, a))
        for n, f in logic.guards.items():
            ns["grd_" + str(abs(hash(n)))] = __import__("xstate_statemachine").guard(n)(lambda self, c, e, _f=f: _f(c, e))
        cls = type("GenMachine", (StateMachine,), ns)
        m = cls.create_machine()
        m._verif_rebuild = cls.create_machine
        return m
    b = MachineBuilder(cfg["id"]).context(copy.deepcopy(cfg.get("context")))
    for k, c in cfg["states"].items():
        kw = _state_kwargs(c, k)
        b.state(k, initial=(k == cfg.get("initial")), **kw)
        if "states" in c:
            b.child_states(k, initial=c.get("initial"), states=copy.deepcopy(c["states"]), parallel=(c.get("type") == "parallel"))
    rp = {}
    if cfg.get("type") == "parallel":
        rp["type"] = "parallel"
    for k in ("on", "entry", "exit", "always", "onDone"):
        if k in cfg:
            rp[k] = copy.deepcopy(cfg[k])
    if rp:
        b.root(**rp)
    for n, f in logic.actions.items():
        b.action(n, f)
    for n, f in logic.guards.items():
        b.guard(n, f)
    m = b.build()
    m._verif_rebuild = b.build          # a second build from the SAME definition
    return m


def _run(machine, events, trace):
    from xstate_statemachine import SyncInterpreter
    it = SyncInterpreter(machine)
    try:
        it.start()
    except Exception as e:
        return {"start_failed": type(e).__name__}
    steps = [M.snapshot_of(it)]
    for ev in events:
        try:
            it.send(ev)
        except Exception:
            pass
        steps.append(M.snapshot_of(it))
    it.stop()
    return {"steps": steps, "actions": list(trace.actions)}


def run_api(case):
    from xstate_statemachine import create_machine
    def strip(c):      # maxIterations and final-state `output` are not expressible in the Python styles
        c = {k: v for k, v in c.items() if k not in ("maxIterations", "output") and not (k == "target" and c.get("type") == "history")}
        if "states" in c:
            c["states"] = {k: strip(v) for k, v in c["states"].items()}
        return c
    cfg = strip(case["config"])
    res = {"problems": []}
    t0 = M.Trace()
    try:
        ref = create_machine(M.materialize(cfg), logic=M.make_logic(cfg, t0))
    except Exception:
        return {"problems": [], "skipped": True}
    ref_fp = fingerprint(ref)
    t1, t2, t3 = M.Trace(), M.Trace(), M.Trace()
    try:
        m1 = build(case["style"], cfg, t1)
        m2 = m1._verif_rebuild() if hasattr(m1, "_verif_rebuild") else build(case["style"], cfg, t2)
    except Exception as e:
        res["problems"].append(("python-definition-rejected", f"{type(e).__name__}: {e}"[:300]))
        return res
    d = diff(json.loads(json.dumps(ref_fp, default=str)), json.loads(json.dumps(fingerprint(m1), default=str)))
    if d:
        res["problems"].append(("structure-differs-from-denoted-config", d[:400]))
        return res
    r0, r1 = _run(ref, case["events"], t0), _run(m1, case["events"], t1)
    if r0 != r1:
        res["problems"].append(("behaviour-differs-from-denoted-config", ""))
    # independence of builds: wreck m1, m2 must be intact
    fp2 = json.dumps(fingerprint(m2), default=str, sort_keys=True)
    st = [m1]
    while st:
        n_ = st.pop()
        n_.entry.append(n_.entry[0] if n_.entry else None)
        n_.on["__junk__"] = []
        n_.tags.add("junk")
        if isinstance(n_.meta, dict):
            n_.meta["junk"] = 1
        st.extend(n_.states.values())
    if isinstance(m1.initial_context, dict):
        m1.initial_context["junk"] = 1
    if json.dumps(fingerprint(m2), default=str, sort_keys=True) != fp2:
        res["problems"].append(("builds-share-mutable-structure", ""))
    # the logic registries of two builds are independent too: rebinding an implementation on one build
    # (or on the definition after building) must not change what another build runs
    for reg in ("actions", "guards", "services"):
        d1, d2 = getattr(m1.logic, reg), getattr(m2.logic, reg)
        if d1 and d1 is d2:
            res["problems"].append(("builds-share-logic-registry", reg))
            break
    if m1.logic.actions:
        k0 = sorted(m1.logic.actions)[0]
        keep = m2.logic.actions.get(k0)
        m1.logic.actions[k0] = lambda *a: None
        if m2.logic.actions.get(k0) is not keep:
            res["problems"].append(("rebinding-on-one-build-leaks-into-another", k0))
    m3 = build(case["style"], cfg, t3)
    if diff(json.loads(json.dumps(ref_fp, default=str)), json.loads(json.dumps(fingerprint(m3), default=str))):
        res["problems"].append(("later-build-affected-by-earlier-one", ""))
    res["states"] = len(json.dumps(cfg))
    return res


# ----------------------------------------------------------------------------- (b)
def _snake(n):
    out = ""
    for ch in n:
        out += ("_" + ch.lower()) if ch.isupper() else ch
    return out


def run_logic(case):
    from xstate_statemachine import MachineLogic, create_machine
    from xstate_statemachine.exceptions import ImplementationMissingError
    names = ["doThing", "isReady", "fetchData", "leafOne", "leafTwo", "notifyAll"]
    cfg_names = names                                                                  # the config references camelCase names
    impl_names = [_snake(n) for n in names] if case["casing"] == "snake" else names      # implemented under snake_case or the same spelling
    ref = dict(zip(names, cfg_names))
    cfg = {"id": "m", "initial": "a", "context": {}, "states": {
        "a": {"entry": [ref["notifyAll"], {"type": "xstate.assign", "params": {"assignment": {"k": 1}}}, "spawn_" + ref["fetchData"]] if False else [ref["notifyAll"], {"type": "xstate.assign", "params": {"assignment": {"k": 1}}}],
              "on": {"GO": {"target": "b", "actions": [ref["doThing"], {"type": "xstate.log", "params": {"expr": "x"}}],
                            "guard": {"type": "and", "children": [ref["leafOne"], {"type": "not", "children": [ref["leafTwo"]]},
                                                                   {"type": "stateIn", "params": {"state": "#m.a"}}, ref["isReady"]]}}},
              "invoke": {"src": ref["fetchData"], "onDone": {"actions": [ref["doThing"]]}}},
        "b": {}}}
    calls = []
    kinds = {"doThing": "action", "notifyAll": "action", "isReady": "guard", "leafOne": "guard", "leafTwo": "guard", "fetchData": "service"}

    def mk(n):
        k = kinds[n]
        if k == "action":
            return lambda i, c, e, a: calls.append(n)
        if k == "guard":
            return (lambda c, e: (calls.append(n), n != "leafTwo")[1])
        return lambda i, c, e: (calls.append(n), 1)[1]
    impls = {impl: mk(n) for n, impl in zip(names, impl_names) if n != case.get("drop")}
    if case.get("override"):
        impls["log"] = lambda i, c, e, a: calls.append("user-log")
        cfg["states"]["a"]["on"]["GO"]["actions"][1] = "log"
    kw = {}
    if case["src"] == "module":
        mod = types.ModuleType("gen_logic")
        for k, v in impls.items():
            v.__name__ = k
            setattr(mod, k, v)
        kw["logic_modules"] = [mod]
    elif case["src"] == "provider":
        def meth(v):
            import inspect
            n = len(inspect.signature(v).parameters)
            if n == 4:
                return lambda self, i, c, e, a: v(i, c, e, a)
            if n == 2:
                return lambda self, c, e: v(c, e)
            return lambda self, i, c, e: v(i, c, e)
        ns = {k: (staticmethod(v) if case.get("static") else meth(v)) for k, v in impls.items()}
        kw["logic_providers"] = [type("Prov", (), ns)()]
    else:
        ns = {}
        for n, impl in zip(names, impl_names):
            if n == case.get("drop"):
                continue
            f = mk(n)
            k = kinds[n]

            def method(f=f, k=k):
                if k == "action":
                    return lambda self, i, c, e, a: f(i, c, e, a)
                if k == "guard":
                    return lambda self, c, e: f(c, e)
                return lambda self, i, c, e: f(i, c, e)
            ns[impl] = method()
        kw["logic"] = type("Logic", (MachineLogic,), ns)()
    res = {"problems": [], "converted": True}
    try:
        m = create_machine(cfg, **kw)
    except ImplementationMissingError as e:
        if case.get("drop") is None:
            res["problems"].append(("name-not-bound", str(e)[:200]))
        return res
    except Exception as e:
        res["problems"].append(("creation-raised-" + type(e).__name__, str(e)[:200]))
        return res
    if case.get("drop") is not None and case["src"] != "subclass":
        res["problems"].append(("missing-implementation-accepted-at-creation", case["drop"]))
    from xstate_statemachine import SyncInterpreter
    if case.get("drop") is None:
        it = SyncInterpreter(m)
        try:
            it.start()
            it.send("GO")
        except Exception as e:
            res["problems"].append(("bound-machine-failed-at-run-time", f"{type(e).__name__}: {e}"[:200]))
        else:
            want = {"notifyAll", "fetchData", "doThing", "leafOne", "leafTwo", "isReady"}
            if not want <= set(calls):
                res["problems"].append(("implementation-not-called", f"called={sorted(set(calls))}"))
            if case.get("override") and "user-log" not in calls:
                res["problems"].append(("built-in-shadowed-user-implementation", str(calls)))
        it.stop()
    return res


def run_case(case):
    return run_api(case) if case["mode"] == "api" else run_logic(case)


def post_check(case, res):
    tag = case.get("style") or case.get("src")
    return [{"key": f"pythonic/{case['mode']}-{tag}:{k}", "detail": v} for k, v in res.get("problems", [])[:2]]


def nontrivial(case, res):
    return not res.get("skipped") and (res.get("states", 0) > 300 or res.get("converted", False))

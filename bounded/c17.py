"""C17 bounded driver: `xsm generate-template` as a contract checked at run time.

For a config and (template, file count): the CLI either exits non-zero having written no
file, or the written modules are valid Python, import without side effects (no file
created, no program run), rebuild - for pythonic templates - a machine whose deep
fingerprint (states, kinds, initial/history, resolved targets, guards with structure and
params, actions with params, delays, invokes with handlers, tags, meta, context) equals
the fingerprint of create_machine(json); for JSON-loading templates the generated logic
binds every referenced name; strings from the JSON reach the files only as data; a second
generation is byte-identical and --check reports no drift."""
import ast
import copy
import json
import os
import random
import shutil
import subprocess
import sys
import tempfile

from bounded import machines as M
from bounded.fingerprint import diff, fingerprint

CONTRACT_PROPS = ["C17"]
RULE = "generated configs (every construct of the machine grammar incl. after, history, guards with params / composites, hostile names) x 5 templates x {1,2} files (sampled); plus a sample of the shipped Stately exports; non-trivial = files were written"
BOUND = "40 (quick) / 300 (thorough) configs x 5 templates; 10 / 104 Stately exports"
TEMPLATES = ["pythonic-functional", "pythonic-builder", "pythonic-class", "class-json", "function-json"]
REPO = os.path.dirname(os.environ.get("VERIF_REPO_SRC", "/repo/src").rstrip("/"))
MAX_WORKERS = 12
HOSTILE = ['x"); open("PWNED","w"); ("', "y'''\n__import__('os').system('touch PWNED')\n'''", "class", "a b", "déjà", "1abc", "a-b", "import", "None"]


def _hostile(cfg, rng):
    cfg = copy.deepcopy(cfg)
    names = iter(rng.sample(HOSTILE, 4))

    def walk(c):
        if "entry" in c and rng.random() < 0.5:
            try:
                c["entry"] = list(c["entry"]) + [next(names)]
            except StopIteration:
                pass
        for s in (c.get("states") or {}).values():
            walk(s)
    walk(cfg)
    cfg["context"] = {"n": 0, "note": "'''\"; import os #"}
    return cfg


def _identifiers(cfg):
    """action names of the generated grammar ('en:m.a') as plain identifiers ('en_m_a')"""
    txt = json.dumps(cfg)
    import re
    return json.loads(re.sub(r'"((?:en|ex|act|nope):[^"]*)"', lambda m: '"' + re.sub(r"[^0-9A-Za-z_]", "_", m.group(1)).lower() + '"', txt))


def cases(tier, seed):
    n = 40 if tier == "quick" else 300
    rng = random.Random(seed * 1299709 + 41)
    k = 0
    yield {"config": GUARD_PARAMS_CASE, "template": "pythonic-functional", "fc": 2, "events": [], "kinds": {}, "family": "guard-params"}
    yield {"config": MIXED_CASE_NAME, "template": "function-json", "fc": 1, "events": [], "kinds": {}, "family": "mixed-case-name"}
    for t in TEMPLATES:
        yield {"config": LEGACY_KEYS, "template": t, "fc": 1, "events": [], "kinds": {}, "family": "legacy-keys"}
    for t in TEMPLATES:
        # regression input of a fixed defect (known_findings.json "fixed": C17): logic named only in a state's own onDone
        yield {"config": ONDONE_ONLY_LOGIC, "template": t, "fc": 2, "events": ["FIN"], "kinds": {}, "family": "ondone-only-logic"}
    for c in M.gen_cases(seed * 1299709 + 1, n, max_nodes=6, features={"after": 0.3, "history": 0.3, "parallel": 0.3}):
        cfg = _identifiers(c["config"])
        fam = "plain"
        if k % 4 == 3:
            cfg, fam = _hostile(cfg, rng), "hostile"
        for t in TEMPLATES:
            yield {"config": cfg, "template": t, "fc": 1 + (k % 2), "events": c["events"], "kinds": {}, "family": fam}
        k += 1
    corpus = os.path.join(REPO, "tests", "tests_cli", "stately_machines")
    if os.path.isdir(corpus):
        files = sorted(f for f in os.listdir(corpus) if f.endswith(".json"))
        rng.shuffle(files)
        for f in files[: (10 if tier == "quick" else 104)]:
            try:
                cfg = json.load(open(os.path.join(corpus, f)))
            except Exception:
                continue
            yield {"config": cfg, "template": rng.choice(TEMPLATES[:3]), "fc": 2, "events": [], "kinds": {}, "family": "stately:" + f}


ONDONE_ONLY_LOGIC = {"id": "m", "initial": "job", "context": {"n": 0}, "states": {
    "job": {"initial": "work", "states": {"work": {"on": {"FIN": "fin"}}, "fin": {"type": "final"}},
            "onDone": {"target": "after", "actions": ["only_in_done"], "guard": "g_done"}},
    "after": {}}}
LEGACY_KEYS = {"id": "m", "initial": "a", "context": {}, "states": {
    "a": {"onEntry": ["hello"], "onExit": "bye", "on": {"GO": "b"}}, "b": {"onEntry": "hello"}}}
MIXED_CASE_NAME = {"id": "m", "initial": "a", "context": {}, "states": {
    "a": {"on": {"GO": {"target": "b", "actions": ["send_HTTP_request"]}}}, "b": {}}}
GUARD_PARAMS_CASE = {"id": "g", "initial": "a", "context": {}, "states": {
    "a": {"on": {"E": [{"target": "b", "guard": {"type": "lim", "params": {"max": 3}}},
                       {"target": "b", "guard": {"type": "and", "children": ["p", {"type": "not", "children": ["q"]}]}}]}},
    "b": {}}}


def describe(c):
    return {"config": c["config"], "template": c["template"], "fc": c["fc"], "family": c.get("family", "")}


def from_description(d):
    d = dict(d)
    d.update(events=[], kinds={})
    return d


def _has_guard_structure(cfg):
    txt = json.dumps(cfg, default=str)
    return '"guard": {' in txt or '"cond": {' in txt


def input_class(c):
    tags = [c["template"], c.get("family", "").split(":")[0]]
    if _has_guard_structure(c["config"]):
        tags.append("object-guards")
    return ",".join(tags)


def _cli(args, cwd):
    env = dict(os.environ)
    env["PYTHONPATH"] = os.environ.get("VERIF_REPO_SRC", "/repo/src")
    env["PYTHONHASHSEED"] = "0"
    p = subprocess.run([sys.executable, "-m", "xstate_statemachine.cli", "generate-template"] + args,
                       cwd=cwd, env=env, capture_output=True, text=True, timeout=60)
    return p.returncode, (p.stdout + p.stderr)[-1500:]


def run_case(case):
    d = tempfile.mkdtemp(prefix="c17_")
    try:
        stem = "mach"
        cfgpath = os.path.join(d, stem + ".json")
        json.dump(case["config"], open(cfgpath, "w"))
        out = os.path.join(d, "out")
        os.makedirs(out)
        args = ["-t", case["template"], "-fc", str(case["fc"]), "-o", out, "--log", "no", "--sleep", "no", "-f", cfgpath]
        rc, log = _cli(args, d)
        files = sorted(os.listdir(out))
        res = {"rc": rc, "files": files, "log": log[-400:], "problems": []}
        if rc != 0:
            if files:
                res["problems"].append(("refused-but-wrote-files", str(files)))
            return res
        texts = {}
        for f in files:
            txt = open(os.path.join(out, f)).read()
            texts[f] = txt
            try:
                ast.parse(txt)
            except SyntaxError as e:
                res["problems"].append(("generated-file-not-valid-python", f"{f}: {e}"))
        if res["problems"]:
            return res
        # strings as data only: importing must not create PWNED / run anything
        env = dict(os.environ)
        env["PYTHONPATH"] = os.environ.get("VERIF_REPO_SRC", "/repo/src")
        stemname = [f for f in files if f.endswith(".py")][0].replace("_logic.py", "").replace("_runner.py", "").replace(".py", "")
        p = subprocess.run([sys.executable, os.path.join(os.path.dirname(__file__), "c17_probe.py"), out, case["template"], stemname, cfgpath],
                           capture_output=True, text=True, timeout=60, env=env, cwd=out)
        line = [l for l in p.stdout.splitlines() if l.startswith("@@PROBE@@")]
        if not line:
            res["problems"].append(("import-probe-crashed", (p.stdout + p.stderr)[-300:]))
            return res
        probe = json.loads(line[0][len("@@PROBE@@"):])
        if probe.get("side_effect_files") or os.path.exists(os.path.join(out, "PWNED")) or os.path.exists(os.path.join(d, "PWNED")):
            res["problems"].append(("import-had-side-effects", str(probe.get("side_effect_files"))))
        if probe.get("error"):
            res["problems"].append(("generated-code-does-not-rebuild", probe["error"]))
            return res
        from xstate_statemachine import MachineLogic, create_machine
        try:
            ref = fingerprint(create_machine(copy.deepcopy(case["config"]), logic=MachineLogic()))
        except Exception as e:
            res["problems"].append(("accepted-a-config-create_machine-rejects", f"{type(e).__name__}: {e}"[:200]))
            return res
        got = probe["fingerprint"]
        ref = json.loads(json.dumps(ref, default=str))
        dd = diff(ref, got)
        if dd:
            res["problems"].append(("rebuilt-machine-differs", dd[:400]))
        # regeneration is byte-identical; --check reports no drift
        out2 = os.path.join(d, "out2")
        os.makedirs(out2)
        rc2, _ = _cli(["-t", case["template"], "-fc", str(case["fc"]), "-o", out2, "--log", "no", "--sleep", "no", "-f", cfgpath], d)
        for f in files:
            p2 = os.path.join(out2, f)
            if not os.path.exists(p2) or open(p2).read() != texts[f]:
                res["problems"].append(("regeneration-not-byte-identical", f))
                break
        rc3, log3 = _cli(["-t", case["template"], "-fc", str(case["fc"]), "-o", out, "--log", "no", "--sleep", "no", "--check", cfgpath], d)
        if rc3 != 0:
            res["problems"].append(("check-reports-drift-on-unchanged-input", log3[-200:]))
        return res
    finally:
        shutil.rmtree(d, ignore_errors=True)


def post_check(case, res):
    return [{"key": f"codegen/{case['template']}:{k}", "detail": v} for k, v in res.get("problems", [])[:2]]


def nontrivial(case, res):
    return res.get("rc") == 0 and bool(res.get("files"))

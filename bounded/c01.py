"""C01 bounded driver: generated machines x event sequences on the sync and
async engines and the pure API; `legal` (the contract vocabulary, evaluated on
the real objects) at every observation point: after start()/send(), at queue
drain, inside on_transition hooks and subscriber callbacks, in snapshots."""
import json

from bounded import machines as M
from pyvc.concrete import Ctx
from pyvc import rt

CONTRACT_PROPS = ["C01"]
RULE = "seeded generation over the machine grammar of bounded/machines.py (<= 7 states), event sequences <= 5; distinct = distinct (machine, events); non-trivial = at least one configuration change"
BOUND = "machines <= 7 states, depth <= 3, <= 5 events; 900+300+150 (quick) / x10 (thorough) machines, each on the sync and async engines and the pure API; families: plain, with missing action implementations (aborted transitions), with history-under-parallel and root targets"
_world = None


def _legal(interp_or_ids, machine):
    from pyvc.run import load_world
    from specs.twins import TWINS
    global _world
    if _world is None:
        _world = load_world()
    nodes = rt._all_nodes(machine)
    ctx = Ctx(_world, TWINS, nodes=nodes)
    if isinstance(interp_or_ids, (list, set)) and all(isinstance(x, str) for x in interp_or_ids):
        A = {n for n in nodes if n.id in set(interp_or_ids)}
    else:
        A = set(interp_or_ids)
    bad = []
    for clause in ("legal_root", "legal_parents", "legal_compound_some", "legal_compound_one", "legal_parallel", "legal_nohistory"):
        if not ctx.eval(f"{clause}(A)", {"A": A, "root": machine}):
            bad.append(clause)
    return bad


def cases(tier, seed):
    n = 900 if tier == "quick" else 9000
    yield from M.gen_cases(seed * 7919 + 1, n)
    yield from M.gen_cases(seed * 7919 + 2, n // 3, features={"missing_impl": 0.08})
    yield from M.gen_cases(seed * 7919 + 3, n // 9, features={"root_target": 0.08})
    yield from M.gen_cases(seed * 7919 + 4, n // 6, features={"history_parallel": 0.6, "parallel": 0.6})


def describe(case):
    return {"config": case["config"], "events": case["events"]}


def from_description(d):
    return {"config": d["config"], "events": d["events"], "kinds": {}}


def input_class(case):
    return ",".join(M.features_of(case["config"]))


def run_case(case):
    obs = []

    def observer(it):
        machine = it.machine

        def sub(i):
            if i.status in ("running", "done"):
                b = _legal(i._active_state_nodes, machine)
                if b:
                    obs.append(("subscriber", b, sorted(n.id for n in i._active_state_nodes)))
        it.subscribe(sub)

        class P:
            def on_transition(self, i, before, after, tr):
                b = _legal(after, machine)
                if b and i.status in ("running", "done"):
                    obs.append(("on_transition", b, sorted(n.id for n in after)))

            def on_event_received(self, *a):
                pass
        it.use(P())
    rs = M.run_sync(case["config"], case["events"], observer=observer)
    ra = M.run_async(case["config"], case["events"])
    rp = None
    try:
        rp = M.run_pure(case["config"], case["events"])
    except Exception as e:
        rp = {"steps": [], "error": type(e).__name__}
    return {"sync": rs, "async": ra, "pure": rp, "obs": obs}


def post_check(case, res):
    out = []
    if not isinstance(res, dict):
        return out
    machine = res["sync"]["interp"].machine
    for eng in ("sync", "async", "pure"):
        if res[eng].get("spin"):
            continue    # never-idle async run loop: C13's known finding, nothing observable here
        for k, st in enumerate(res[eng]["steps"]):
            if st["status"] in ("running", "done", "active"):
                b = _legal(st["config"], machine)
                if b:
                    out.append({"key": f"observation/{eng}:legal", "detail": f"step {k}: {b} config={st['config']}"})
                    break
    for where, b, cfg in res["obs"]:
        out.append({"key": f"observation/{where}:legal", "detail": f"{b} config={cfg}"})
        break
    return out


def nontrivial(case, res):
    steps = res["sync"]["steps"]
    return any(steps[i]["config"] != steps[i + 1]["config"] for i in range(len(steps) - 1))

"""C15 bounded driver: actor messaging and supervision on a 3-level actor tree
(root -> worker/sink -> grandchild), both engines where the feature exists.

Checks: spawnChild / spawn_<key> / invoke-a-machine create exactly one started child,
registered under its id and systemId; sendTo by id, by systemId, by service key, by callable,
sendParent, forwardTo and escalate deliver each event exactly once to exactly the addressed
actor, in sending order; an unresolvable or ambiguous target drops the event; cancel(id)
prevents exactly that delayed send; stopChild and the parent's stop() stop the child and its
descendants and remove them from the children map and the system registry; a systemId
registered by a grandchild is visible from the root and vice versa."""
import asyncio
import itertools
import time

CONTRACT_PROPS = ["C15"]
RULE = "all orderings (length <= 3 quick / 4 thorough) of 9 operations on the actor tree, async engine; fixed scenarios on the sync engine; non-trivial = at least one message was delivered to a child"
BOUND = "actor tree depth 3, fan-out 2, operation sequences <= 3/4"
# delayed sends fire after DELAY_MS; a `cancel` op arrives at most (len(ops) - 1) x ~15 ms after the `delayed` op even on a
# loaded machine - well inside the delay - and the run waits longer than the delay before it reads the log
DELAY_MS = 200
OPS = ["to_id", "to_sys", "to_key", "to_fn", "to_gk", "gk_to_sink", "to_bad", "to_amb", "delayed", "cancel", "stop_w"]


def _machines(eng):
    from xstate_statemachine import MachineLogic, create_machine
    log = []

    def rec(tag):
        def a(i, c, e, ad):
            log.append((tag, i.id.split(":")[-1] if ":" in i.id else i.id, e.type, dict(getattr(e, "payload", {}) or {})))
        return a
    gk_cfg = {"id": "gk", "initial": "k", "context": {}, "states": {"k": {"on": {"HIT": {"actions": ["hit"]}, "UP": {"actions": [{"type": "xstate.sendParent", "params": {"event": {"type": "FROMGK"}}}]},
                                                                       "TOSINK": {"actions": [{"type": "xstate.sendTo", "params": {"to": "sinksys", "event": {"type": "HIT"}}}]}}}}}
    gk = create_machine(gk_cfg, logic=MachineLogic(actions={"hit": rec("hit")}))
    worker_cfg = {"id": "worker", "initial": "w", "context": {}, "states": {"w": {
        "entry": [{"type": "xstate.spawnChild", "params": {"src": "gk", "id": "g1", "systemId": "gksys"}}],
        "on": {"HIT": {"actions": ["hit"]}, "FROMGK": {"actions": ["hit"]},
               "FWD": {"actions": [{"type": "xstate.forwardTo", "params": {"to": "g1"}}]},
               "ESC": {"actions": [{"type": "xstate.escalate", "params": {"error": "bad"}}]}}}}}
    worker = create_machine(worker_cfg, logic=MachineLogic(actions={"hit": rec("hit")}, services={"gk": gk}))
    sink = create_machine({"id": "sink", "initial": "s", "context": {}, "states": {"s": {"on": {"HIT": {"actions": ["hit"]}}}}},
                          logic=MachineLogic(actions={"hit": rec("hit")}))

    def send(to, n, **kw):
        p = {"to": to, "event": {"type": "HIT", "n": n}}
        p.update(kw)
        return {"type": "xstate.sendTo", "params": p}
    root_cfg = {"id": "root", "initial": "r", "context": {}, "states": {"r": {
        "entry": [{"type": "xstate.spawnChild", "params": {"src": "worker", "id": "w1", "systemId": "wsys"}},
                  {"type": "xstate.spawnChild", "params": {"src": "sink", "id": "s1", "systemId": "sinksys"}},
                  {"type": "xstate.spawnChild", "params": {"src": "sink", "id": "s2"}}],
        "on": {"to_id": {"actions": [send("w1", 1), send("w1", 2)]},
               "to_sys": {"actions": [send("wsys", 3)]},
               "to_key": {"actions": [send("worker", 4)]},
               "to_fn": {"actions": [send(lambda a: "wsys", 5)]},
               "to_gk": {"actions": [send("gksys", 6)]},
               "gk_to_sink": {"actions": [{"type": "xstate.sendTo", "params": {"to": "gksys", "event": {"type": "TOSINK"}}}]},
               "to_bad": {"actions": [send("nobody", 7)]},
               "to_amb": {"actions": [send("sink", 8)]},
               "delayed": {"actions": [send("w1", 9, delay=DELAY_MS, id="d9"), send("w1", 10, delay=DELAY_MS, id="d10")]},
               "cancel": {"actions": [{"type": "xstate.cancel", "params": {"sendId": "d9"}}]},
               "stop_w": {"actions": [{"type": "xstate.stopChild", "params": {"id": "w1"}}]},
               "xstate.error.actor.root:w1": {"actions": ["hit"]},
               "FROMGK": {"actions": ["hit"]}}}}}
    root = create_machine(root_cfg, logic=MachineLogic(actions={"hit": rec("hit")}, services={"worker": worker, "sink": sink}))
    return root, log


def cases(tier, seed):
    Lmax = 3 if tier == "quick" else 4
    for n in range(1, Lmax + 1):
        for seq in itertools.permutations(OPS, n):
            if tier == "quick" and n == 3 and __import__('zlib').crc32(' '.join(seq).encode()) % 4:
                continue
            yield {"ops": list(seq), "engine": "async"}
    for seq in (["to_id"], ["to_sys", "to_gk"], ["to_bad", "to_amb"], ["stop_w", "to_id"], ["to_gk", "stop_w", "to_gk"]):
        yield {"ops": seq, "engine": "sync"}


def describe(c):
    return dict(c)


def from_description(d):
    return dict(d)


def input_class(c):
    return c["engine"]


def _tree(it):
    out = {}
    for aid, a in it._actors.items():
        out[aid] = {"status": a.status, "kids": _tree(a)}
    return out


def run_case(case):
    from xstate_statemachine import Interpreter, SyncInterpreter
    root, log = _machines(case["engine"])
    if case["engine"] == "sync":
        it = SyncInterpreter(root).start()
        time.sleep(0.15)            # non-blocking children start on their own threads
        steps = []
        for op in case["ops"]:
            it.send(op)
            time.sleep(0.05)
            steps.append((op, _tree(it), sorted(it.system.get_all())))
        time.sleep((DELAY_MS + 80) / 1000.0 if "delayed" in case["ops"] else 0.1)
        allk = list(it._actors.values())
        it.stop()
        time.sleep(0.05)
        return {"log": list(log), "steps": steps, "after_stop": [a.status for a in allk], "registry_after_stop": sorted(it._system)}

    async def go():
        it = Interpreter(root)
        await it.start()
        await asyncio.sleep(0.02)
        steps = []
        for op in case["ops"]:
            await it.send(op)
            await asyncio.sleep(0.01)
            steps.append((op, _tree(it), sorted(it.system.get_all())))
        await asyncio.sleep((DELAY_MS + 80) / 1000.0 if "delayed" in case["ops"] else 0.08)
        kids = []
        def collect(x):
            for a in x._actors.values():
                kids.append(a)
                collect(a)
        collect(it)
        await it.stop()
        await asyncio.sleep(0.02)
        return {"log": list(log), "steps": steps, "after_stop": [a.status for a in kids], "registry_after_stop": sorted(it._system)}
    return asyncio.run(asyncio.wait_for(go(), 15))


def post_check(case, res):
    out = []
    e = case["engine"]

    def bad(key, detail):
        out.append({"key": f"actors/{e}:{key}", "detail": f"ops={case['ops']}: {detail}"})
    ops = case["ops"]
    hits = [(who, pl.get("n")) for tag, who, et, pl in res["log"] if et == "HIT"]
    stopped_at = ops.index("stop_w") if "stop_w" in ops else None
    exp = []

    def alive(i):
        return stopped_at is None or i < stopped_at
    for i, op in enumerate(ops):
        if op == "to_id" and alive(i):
            exp += [("w1", 1), ("w1", 2)]
        if op == "to_sys" and alive(i):
            exp += [("w1", 3)]
        if op == "to_key" and alive(i):
            exp += [("w1", 4)]
        if op == "to_fn" and alive(i):
            exp += [("w1", 5)]
        if op == "to_gk" and alive(i):
            exp += [("g1", 6)]
        if op == "gk_to_sink" and alive(i):
            exp += [("s1", None)]       # the grandchild addresses a sibling branch by systemId
    # delayed sends: 9 unless cancelled before it fired (cancel comes well inside the delay, see DELAY_MS), 10 always
    if "delayed" in ops and (stopped_at is None or ops.index("delayed") < stopped_at):
        d = ops.index("delayed")
        cancelled = "cancel" in ops[d + 1:]
        late = []
        if not cancelled:
            late.append(("w1", 9))
        late.append(("w1", 10))
        if stopped_at is not None and stopped_at > d:
            late = []          # worker stopped while the sends were pending: nothing may be delivered
        exp_late = late
    else:
        exp_late = []
    got_now = [h for h in hits if h[1] not in (9, 10)]
    got_late = sorted(h for h in hits if h[1] in (9, 10))
    if got_now != exp:
        bad("delivery", f"expected {exp} got {got_now}")
    if e == "async" and got_late != sorted(exp_late):
        bad("delayed-or-cancelled-delivery", f"expected {sorted(exp_late)} got {got_late}")
    # registration after start / after stop_w
    for k, (op, tree, reg) in enumerate(res["steps"]):
        ids = sorted(x.split(":")[-1] for x in tree)
        gone = stopped_at is not None and k >= stopped_at
        want_ids = ["s1", "s2"] if gone else ["s1", "s2", "w1"]
        if ids != want_ids:
            bad("children-map", f"after {op}: {ids} (expected {want_ids})")
            break
        want_reg = ["sinksys"] if gone else ["gksys", "sinksys", "wsys"]
        if sorted(reg) != want_reg:
            bad("system-registry", f"after {op}: {sorted(reg)} (expected {want_reg})")
            break
    if res.get("registry_after_stop"):
        bad("system-registry-after-parent-stop", str(res["registry_after_stop"]))
    if any(s not in ("stopped",) for s in res["after_stop"]):
        bad("descendant-alive-after-parent-stop", str(res["after_stop"]))
    return out


def nontrivial(case, res):
    return any(et == "HIT" for _, _, et, _ in res["log"])

"""C14 bounded driver: lifecycle call sequences on both engines.

All sequences (length <= 5 quick / 6 thorough) over {start, send, stop, snap(restore), wait}
on four machine kinds (plain with a short `after` timer and a delayed self-send;
completing; failing invoked service without onError; parent that spawns a child actor).
After every call the status edge must be allowed, start() must be idempotent while
running / refuse a stopped interpreter with a library error / resume a restored one,
send() on done/error/stopped must change and queue nothing, stop() must be idempotent
and leave no timer, delayed send, service task, timer thread or live descendant actor,
and nothing may be delivered after stop()."""
import asyncio
import copy
import itertools
import threading
import time

from bounded import machines as M

CONTRACT_PROPS = ["C14"]
RULE = "all operation sequences over {start, send E, send F, stop, restore, wait} up to the stated length x 4 machine kinds x 2 engines; non-trivial = the sequence contains start and at least one later operation"
BOUND = "sequence length <= 4 (quick) / 5 (thorough); timers of 10-30 ms"
OPS = ["start", "sendE", "sendF", "stop", "restore", "wait"]
ALLOWED = {("uninitialized", "running"), ("running", "done"), ("running", "error"), ("running", "stopped"),
           ("done", "stopped"), ("error", "stopped")}


def _machines():
    def boom(i, c, e):
        raise RuntimeError("service boom")

    def okservice(i, c, e):
        return 1
    plain = {"id": "m", "initial": "a", "context": {"n": 0, "late": 0}, "states": {
        "a": {"after": {"15": "#m.b"}, "on": {"E": "#m.b", "F": {"actions": ["late"]}},
              "entry": [{"type": "xstate.raise", "params": {"event": {"type": "LATE"}, "delay": 25, "id": "d1"}}]},
        "b": {"on": {"E": "#m.a", "LATE": {"actions": ["late"]}, "F": {"actions": ["late"]}}, "after": {"20": "#m.a"}}}}
    completing = {"id": "m", "initial": "a", "context": {"n": 0, "late": 0}, "output": "OUT", "states": {
        "a": {"on": {"E": "#m.fin"}, "after": {"15": {"actions": ["late"]}}}, "fin": {"type": "final"}}}
    failing = {"id": "m", "initial": "a", "context": {"n": 0, "late": 0}, "states": {
        "a": {"on": {"E": "#m.s", "F": {"actions": ["late"]}}}, "s": {"invoke": {"src": "boom"}, "on": {"F": {"actions": ["late"]}}}}}
    child = {"id": "kid", "initial": "k", "context": {}, "states": {"k": {"after": {"15": "#kid.k2"}}, "k2": {}}}
    parent = {"id": "m", "initial": "a", "context": {"n": 0, "late": 0}, "states": {
        "a": {"on": {"E": {"actions": ["spawn_kid"]}, "F": {"actions": ["late"]}}}}}
    return {"plain": plain, "completing": completing, "failing": failing, "parent": parent}, child, boom


def cases(tier, seed):
    L = 4 if tier == "quick" else 5
    for kind in ("plain", "completing", "failing", "parent"):
        for eng in ("sync", "async"):
            for n in range(1, L + 1):
                for seq in itertools.product(OPS, repeat=n):
                    if seq[0] not in ("start", "stop", "sendE"):
                        continue
                    if seq.count("wait") > 1:
                        continue
                    yield {"kind": kind, "engine": eng, "ops": list(seq)}


def describe(case):
    return dict(case)


def from_description(d):
    return dict(d)


def input_class(case):
    return f"{case['kind']},{case['engine']}"


def _build(kind):
    from xstate_statemachine import MachineLogic, create_machine
    ms, child, boom = _machines()
    late = []

    def late_action(i, c, e, a):
        late.append(time.time())
        c["late"] += 1
    kid = create_machine(copy.deepcopy(child), logic=MachineLogic())
    logic = MachineLogic(actions={"late": late_action}, services={"boom": boom, "kid": kid})
    return create_machine(copy.deepcopy(ms[kind]), logic=logic), late


def _logged(cls):
    """subclass recording every write of `status` (the real class is otherwise untouched)"""
    class Logged(cls):
        def __setattr__(self, name, value):
            if name == "status":
                self.__dict__.setdefault("_verif_status_log", []).append(value)
            object.__setattr__(self, name, value)
    Logged.__name__ = cls.__name__
    return Logged


def _leftovers_sync(it):
    out = []
    for name in ("_after_events", "_after_threads", "_pending_send_cancels", "_scheduled_sends", "_actors"):
        v = getattr(it, name, None)
        if v:
            out.append(f"{name}={len(v)}")
    return out


def _descendants(it):
    out = []
    for a in list(getattr(it, "_actors", {}).values()):
        out.append(a)
        out += _descendants(a)
    return out


def run_sync(case):
    from xstate_statemachine import SyncInterpreter
    from xstate_statemachine.exceptions import XStateMachineError
    m, late = _build(case["kind"])
    SyncInterpreter = _logged(SyncInterpreter)
    it = SyncInterpreter(m)
    hist = [it.status]
    probs = []
    kids = []
    for op in case["ops"]:
        before = it.status
        snap_before = (M.snapshot_of(it), len(it._event_queue), len(late))
        try:
            if op == "start":
                it.start()
                if before == "stopped":
                    probs.append("start-on-stopped-did-not-raise")
                if before == "running" and (M.snapshot_of(it), len(it._event_queue), len(late)) != snap_before:
                    probs.append("start-not-idempotent-while-running")
            elif op in ("sendE", "sendF"):
                it.send(op[-1])
                if before in ("done", "error", "stopped", "uninitialized"):
                    if (M.snapshot_of(it), len(it._event_queue), len(late)) != snap_before:
                        probs.append(f"send-on-{before}-changed-something")
            elif op == "stop":
                kids += _descendants(it)
                it.stop()
                if before != "uninitialized":
                    left = _leftovers_sync(it)
                    if left:
                        probs.append("stop-left:" + ",".join(left))
                    for k in kids:
                        if k.status not in ("stopped", "uninitialized") or _leftovers_sync(k):
                            probs.append("stop-left-live-descendant")
                    n0 = (len(late), M.snapshot_of(it))
                    time.sleep(0.06)
                    if (len(late), M.snapshot_of(it)) != n0:
                        probs.append("delivery-after-stop")
            elif op == "restore":
                if it.status in ("running", "done", "error"):
                    snap = it.get_snapshot()
                    it.stop()
                    hist += it.__dict__.get("_verif_status_log", [])[1:]
                    it = SyncInterpreter.from_snapshot(snap, m)
                    hist.append("|")
                    if it.status == "running":
                        it.start()      # resuming a restored interpreter must work
            elif op == "wait":
                time.sleep(0.05)
        except XStateMachineError as e:
            if not (op == "start" and before == "stopped"):
                probs.append(f"{op}-raised-{type(e).__name__}")
        except Exception as e:
            probs.append(f"{op}-raised-raw-{type(e).__name__}")
    try:
        it.stop()
    except Exception:
        pass
    hist += it.__dict__.get("_verif_status_log", [])[1:]
    return {"hist": hist, "probs": probs}


def run_async(case):
    from xstate_statemachine import Interpreter
    from xstate_statemachine.exceptions import XStateMachineError

    async def go():
        m, late = _build(case["kind"])
        Interp = _logged(Interpreter)
        it = Interp(m)
        hist = [it.status]
        probs = []
        kids = []

        async def settle():
            for _ in range(50):
                await asyncio.sleep(0)
        for op in case["ops"]:
            before = it.status
            snap_before = (M.snapshot_of(it), it._event_queue.qsize(), len(late))
            try:
                if op == "start":
                    await it.start()
                    await settle()
                    if before == "stopped":
                        probs.append("start-on-stopped-did-not-raise")
                elif op in ("sendE", "sendF"):
                    await it.send(op[-1])
                    if before in ("done", "error", "stopped"):
                        if (M.snapshot_of(it), it._event_queue.qsize(), len(late)) != snap_before:
                            probs.append(f"send-on-{before}-changed-something")
                    await settle()
                elif op == "stop":
                    kids += _descendants(it)
                    await it.stop()
                    if before != "uninitialized":
                        tasks = [t for ts in it.task_manager._tasks_by_owner.values() for t in ts if not t.done()]
                        if tasks or it._actors or (it._event_loop_task is not None):
                            probs.append(f"stop-left:tasks={len(tasks)},actors={len(it._actors)},loop={it._event_loop_task is not None}")
                        for k in kids:
                            if k.status not in ("stopped", "uninitialized"):
                                probs.append("stop-left-live-descendant")
                        n0 = (len(late), M.snapshot_of(it))
                        await asyncio.sleep(0.06)
                        if (len(late), M.snapshot_of(it)) != n0:
                            probs.append("delivery-after-stop")
                elif op == "restore":
                    if it.status in ("running", "done", "error"):
                        snap = it.get_snapshot()
                        await it.stop()
                        hist += it.__dict__.get("_verif_status_log", [])[1:]
                        it = Interp.from_snapshot(snap, m)
                        hist.append("|")
                        if it.status == "running":
                            await it.start()
                            if not it.is_running:
                                probs.append("restored-not-resumed-by-start")
                elif op == "wait":
                    await asyncio.sleep(0.05)
            except XStateMachineError as e:
                if not (op == "start" and before == "stopped"):
                    probs.append(f"{op}-raised-{type(e).__name__}")
            except Exception as e:
                probs.append(f"{op}-raised-raw-{type(e).__name__}")
        try:
            await it.stop()
        except Exception:
            pass
        hist += it.__dict__.get("_verif_status_log", [])[1:]
        return {"hist": hist, "probs": probs}
    return asyncio.run(asyncio.wait_for(go(), 15))


def run_case(case):
    return run_sync(case) if case["engine"] == "sync" else run_async(case)


def post_check(case, res):
    out = []
    h = res["hist"]
    for a, b in zip(h, h[1:]):
        if "|" in (a, b) or a == b:
            continue
        if (a, b) not in ALLOWED:
            out.append({"key": f"lifecycle/{case['engine']}:status-edge", "detail": f"{a}->{b} in {h}"})
            break
    for p in res["probs"][:2]:
        out.append({"key": f"lifecycle/{case['engine']}:{p.split(':')[0]}", "detail": f"{p} ops={case['ops']}"})
    return out


def nontrivial(case, res):
    ops = case["ops"]
    return "start" in ops and ops.index("start") < len(ops) - 1

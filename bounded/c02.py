"""C02 bounded driver: the real selection functions under the run-time contract
`result == spec_selected` (an executable specification written from the statement),
plus the whole-run clauses: an event with no nominee is a no-op; can() agrees and changes nothing."""
import copy

from bounded import machines as M

CONTRACT_PROPS = ["C02"]
RULE = "generated machines (<= 7 states) x event sequences (<= 5) on the sync engine with probes after every step; non-trivial = some event selected >= 1 transition"
BOUND = "1200 (quick) / 12000 (thorough) machines; guards true/false/raising/composite/stateIn"


def cases(tier, seed):
    n = 1200 if tier == "quick" else 12000
    yield from M.gen_cases(seed * 104729 + 11, n, features={"parallel": 0.45, "forbidden": 0.1})


def describe(case):
    return {"config": case["config"], "events": case["events"]}


def from_description(d):
    return {"config": d["config"], "events": d["events"]}


def input_class(case):
    return ",".join(M.features_of(case["config"]))


def run_case(case):
    from specs.twins import spec_selected
    probes = []

    def observer(it):
        it._verif_probes = probes
    from xstate_statemachine import SyncInterpreter, create_machine
    from xstate_statemachine.events import Event
    tr = M.Trace()
    m = create_machine(M.materialize(case["config"]), logic=M.make_logic(case["config"], tr))
    it = SyncInterpreter(m)
    try:
        it.start()
    except Exception:
        return {"start_failed": True, "probes": [], "fired": 0}
    fired = 0
    out = []
    for ev in case["events"]:
        if it.status != "running":
            break
        e = Event(ev)
        try:
            expected = spec_selected(it, e)
        except Exception:
            expected = None
        try:
            spec_selected_always = [t for t in spec_selected(it, Event("")) if t.event == ""]
        except Exception:
            spec_selected_always = [None]
        before = (M.snapshot_of(it), len(tr.actions), {k: [n.id for n in v] for k, v in it._history.items()})
        can_before = it.can(ev)
        after_can = (M.snapshot_of(it), len(tr.actions), {k: [n.id for n in v] for k, v in it._history.items()})
        if after_can != before:
            out.append({"key": "observation/can:changes-nothing", "detail": f"{ev}"})
        if expected is not None and can_before != bool(expected):
            out.append({"key": "observation/can:iff-nominee", "detail": f"{ev}: can={can_before} nominees={len(expected)}"})
        try:
            it.send(ev)
        except Exception:
            pass
        after = (M.snapshot_of(it), len(tr.actions), {k: [n.id for n in v] for k, v in it._history.items()})
        # the no-op clause is about a configuration that has settled: a machine whose always-transitions are enabled for
        # ever (an eventless livelock that only the maxIterations breaker cuts - C13's subject) re-runs them after ANY
        # macrostep, nominee or not; such a pre-state is outside the clause
        try:
            unsettled = bool(spec_selected_always)
        except Exception:
            unsettled = True
        if expected is not None and not expected and not unsettled:
            if after != before:
                out.append({"key": "observation/no-nominee:no-op", "detail": f"{ev}: {before[0]['config']} -> {after[0]['config']} actions+{after[1]-before[1]}"})
        if expected:
            fired += 1
    it.stop()
    return {"probes": out, "fired": fired}


def post_check(case, res):
    return list(res.get("probes", []))


def nontrivial(case, res):
    return res.get("fired", 0) > 0

"""Bounded stand-in / replay space for C20: the real `_matching_descriptors`
under its run-time contract, exhaustively over a small segment alphabet."""
import itertools

KEYS = ["A", "A.B", "A.*", "A.B.*", "*", ".*", "B.*", "A.B.C.*", "done.x", "done.*", "xstate.*", "A.*.*"]
EVENTS = ["A", "A.B", "A.B.C", "B", "A.*", "", "*", "done.x", "done.state.m", "error.platform.s", "after.5.m.a",
          "xstate.error.actor.c", "AB", ".", "A.", "done", "A.B.C.D"]


def cases(tier, seed):
    sizes = (0, 1, 2, 3) if tier == "quick" else (0, 1, 2, 3, 4)
    for n in sizes:
        for combo in itertools.permutations(KEYS, n) if n <= 2 else itertools.combinations(KEYS, n):
            orders = [combo] if n <= 2 else [combo, tuple(reversed(combo))]
            for order in orders:
                for e in EVENTS:
                    yield list(order), e


def run_case(case):
    from xstate_statemachine.base_interpreter import BaseInterpreter
    keys, e = case
    on_map = {k: [] for k in keys}
    return BaseInterpreter._matching_descriptors(on_map, e)


def describe(case):
    return {"keys": case[0], "event": case[1]}


def nontrivial(case, result):
    return len(result) >= 2 or (len(case[0]) >= 2 and len(result) >= 1)


def from_description(d):
    return (d["keys"], d["event"])


BOUND = "all ordered key lists of length <= 2, all key sets of length 3 (quick) / 4 (thorough) in two orders, over 12 descriptor keys x 17 event types"
RULE = "exhaustive enumeration of (key list, event type); non-trivial = at least two candidates matched or several keys competing"
CONTRACT_PROPS = ["C20"]

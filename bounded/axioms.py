"""Axiom validation driver: every axiom of specs/xsm.py whose status is not a pure definition
is evaluated - as the very text handed to the solver - on the objects the REAL constructors
build (create_machine / StateNode / TransitionDefinition / GuardDefinition) for generated
machines.  An axiom that is false of a real machine would make every proof that uses it
worthless; this is the bounded check behind the notes "bounded: ..." of the T-*, I-*, D-* axioms
(the T-* ones are in addition proved in Lean for arbitrary trees)."""
from bounded import machines as M
from pyvc.concrete import Ctx
from pyvc import rt

CONTRACT_PROPS = ["__none__"]
RULE = "generated machines of bounded/machines.py (compound / parallel / final / history, guards incl. composite, after, invoke-free); distinct = distinct machine; non-trivial = the machine has more than one state"
BOUND = "machines <= 7 states, depth <= 3; 300 (quick) / 3000 (thorough) machines x every validated axiom; quantifiers range over all objects of the machine (+ None), all its strings, ints in [-2, maxlen+2]"
SKIP = ("G-miss", "G-val")          # definitions of spec functions that have no executable twin (their arguments include uninterpreted user outcomes)
_world = None

GUARDED = [
    {"type": "and", "children": ["gT", {"type": "not", "children": ["gF"]}]},
    {"type": "or", "children": ["gF", "gOdd", {"type": "stateIn", "params": {"state": "#m"}}]},
    {"type": "not", "children": [{"type": "and", "children": ["gT", "gT"]}]},
]


def cases(tier, seed):
    n = 300 if tier == "quick" else 3000
    k = 0
    for case in M.gen_cases(seed * 104729 + 11, n, features={"parallel": 0.4, "history_parallel": 0.2}):
        # decorate some transitions with composite guards so that the guard-tree axioms meet real GuardDefinition objects
        cfg = case["config"]
        k += 1
        if k % 3 == 0:
            for st in (cfg.get("states") or {}).values():
                on = st.get("on") if isinstance(st, dict) else None
                if isinstance(on, dict):
                    for ev, t in list(on.items()):
                        if isinstance(t, dict) and "guard" not in t and "cond" not in t:
                            t["guard"] = GUARDED[k % len(GUARDED)]
                            break
        yield case


def describe(case):
    return {"config": case["config"]}


def from_description(d):
    return {"config": d["config"], "events": [], "kinds": {}}


def input_class(case):
    return ",".join(M.features_of(case["config"]))


def _objects(machine):
    nodes = rt._all_nodes(machine)
    trans, guards, acts, invs = [], [], [], []

    def add_guard(g):
        if g is None or any(g is x for x in guards):
            return
        guards.append(g)
        for ch in getattr(g, "children", []) or []:
            add_guard(ch)

    def add_t(t):
        if t is None or any(t is x for x in trans):
            return
        trans.append(t)
        add_guard(getattr(t, "guard_def", None))
        acts.extend(getattr(t, "actions", []) or [])
    for n in nodes:
        for lst in (n.on or {}).values():
            for t in lst:
                add_t(t)
        for lst in (n.after or {}).values():
            for t in lst:
                add_t(t)
        add_t(getattr(n, "on_done", None))
        for inv in getattr(n, "invoke", []) or []:
            invs.append(inv)
            for t in list(getattr(inv, "on_done", []) or []) + list(getattr(inv, "on_error", []) or []):
                add_t(t)
        acts.extend(n.entry or [])
        acts.extend(n.exit or [])
    return nodes, trans, guards, acts, invs


def _height(n):
    return 0 if not n.states else 1 + max(_height(c) for c in n.states.values())


def _gsize(g):
    return 1 + sum(_gsize(c) for c in (g.children or []))


def run_case(case):
    from xstate_statemachine import create_machine
    from pyvc.run import load_world
    from specs.twins import TWINS
    global _world
    if _world is None:
        _world = load_world()
    trace = M.Trace()
    machine = create_machine(M.materialize(case["config"]), logic=M.make_logic(case["config"], trace))
    nodes, trans, guards, acts, invs = _objects(machine)
    strings = set()
    for n in nodes:
        strings.update([n.id, n.key, n.id + ".", n.id + "::x"])
        strings.update(n.states.keys())
        strings.update(k for k in (n.on or {}).keys() if isinstance(k, str))
    twins = dict(TWINS)
    twins.update({"height": _height, "gsize": _gsize})
    maxlen = max([2] + [len(n.states) for n in nodes] + [len(n.entry) + len(n.exit) for n in nodes]
                 + [len(t.actions) for t in trans] + [len(g.children or []) for g in guards])
    ctx = Ctx(_world, twins, nodes=nodes, strings=sorted(strings), maxlen=maxlen)
    opaque = []
    for n in nodes:
        opaque.extend(k for k in (n.after or {}).keys())
    ctx.extra_universe.update({"Trans": trans + [None], "Guard": guards + [None], "Act": acts + [None], "Inv": invs + [None],
                               "Opaque": opaque + [None]})
    failed, checked = [], 0
    for a in _world.axioms:
        if a.name in SKIP:
            continue
        try:
            ok = bool(ctx.eval(a.text, {"root": machine}))
        except Exception as e:            # an axiom that cannot be evaluated on real objects is reported, not skipped
            failed.append({"key": f"axiom/{a.name}:not-evaluable", "detail": repr(e)[:200]})
            continue
        checked += 1
        if not ok:
            failed.append({"key": f"axiom/{a.name}:false-on-a-real-machine", "detail": f"witness={rt._short(ctx.witness)}"})
    return {"nodes": len(nodes), "axioms": checked, "failed": failed}


def post_check(case, res):
    return res["failed"]


def nontrivial(case, res):
    return res["nodes"] > 1 and res["axioms"] > 0

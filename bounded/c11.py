"""C11 bounded driver: history restoration oracle on the real engines.

For every executed transition whose target is a history pseudo-state h (parent P)
and whose source lies outside P, the configuration below P right after the
transition must be (statement):
  never exited P          -> h's default target entered normally, else P's normal entry;
  shallow                 -> the child of P active when P was last exited, then that child's normal descent;
  deep                    -> exactly the leaves that were active then (with their ancestors).
"recorded" is tracked by the driver itself from the on_transition hook (the active
descendants of P in the configuration before the transition that exited P), never read
from the interpreter's own history.  The same run is repeated with a snapshot/restore
cycle before every event (history restored from a snapshot must behave the same).
"""
import copy
import itertools
import json

from bounded import machines as M

CONTRACT_PROPS = ["C11"]
RULE = "structured history family (shallow/deep x compound parents with nested compound/parallel children x all event orders <= 4) plus generated machines with history states; non-trivial = a history-targeting transition from outside the parent was executed"
BOUND = "exhaustive event orders of length <= 4 (quick) / 5 (thorough) over the structured family; 800/8000 generated machines"


def family(tier):
    L = 4 if tier == "quick" else 5
    for kind in ("shallow", "deep"):
        for default in (None, "y"):
            h = {"type": "history", "history": kind}
            if default:
                h["target"] = default
            for inner in ("compound", "parallel"):
                if inner == "compound":
                    y = {"initial": "y1", "states": {"y1": {"on": {"N": "#m.w.y.y2"}, "entry": ["en:m.w.y.y1"]},
                                                      "y2": {"entry": ["en:m.w.y.y2"]}}}
                else:
                    y = {"type": "parallel", "states": {
                        "r": {"initial": "r1", "states": {"r1": {"on": {"N": "#m.w.y.r.r2"}, "entry": ["en:m.w.y.r.r1"]}, "r2": {"entry": ["en:m.w.y.r.r2"]}}},
                        "ra": {"initial": "r1", "states": {"r1": {"on": {"K": "#m.w.y.ra.r2"}, "entry": ["en:m.w.y.ra.r1"]}, "r2": {"entry": ["en:m.w.y.ra.r2"]}}}}}
                y["entry"] = ["en:m.w.y"]
                cfg = {"id": "m", "initial": "w", "context": {"n": 0}, "states": {
                    "w": {"initial": "x", "entry": ["en:m.w"], "on": {"OUT": "#m.out"}, "states": {
                        "x": {"on": {"GO": "#m.w.y"}, "entry": ["en:m.w.x"]}, "y": y, "h": h}},
                    "out": {"on": {"BACK": "#m.w.h"}, "entry": ["en:m.out"]}}}
                Lk = L + 1 if (inner == "parallel" and kind == "deep") else L
                for n in range(1, Lk + 1):
                    for seq in itertools.product(["GO", "N", "K", "OUT", "BACK"], repeat=n):
                        if "BACK" in seq:
                            yield {"config": cfg, "events": list(seq), "kinds": {}, "family": "history"}


PAR_PARENT_CASE = {"config": {"id": "m", "initial": "out", "context": {"n": 0}, "states": {
    "p": {"type": "parallel", "states": {"r1": {"initial": "a", "states": {"a": {}, "b": {}}},
                                           "r2": {"initial": "c", "states": {"c": {}, "d": {}}},
                                           "h": {"type": "history", "history": "deep"}}},
    "out": {"on": {"BACK": "#m.p.h"}}}}, "events": ["BACK"], "kinds": {}, "family": "history"}


def cases(tier, seed):
    yield PAR_PARENT_CASE       # regression input of the fixed defect (known_findings.json "fixed": C11 2e41f2b)
    yield from family(tier)
    n = 800 if tier == "quick" else 8000
    yield from M.gen_cases(seed * 86028121 + 9, n, max_nodes=8, features={"history": 0.7, "parallel": 0.35}, ev_len=6)


def describe(case):
    return {"config": case["config"], "events": case["events"], "family": case.get("family", "")}


def from_description(d):
    return {"config": d["config"], "events": d["events"], "family": d.get("family", "")}


def input_class(case):
    return ",".join(M.features_of(case["config"]))


def default_entry(node):
    """normal entry below `node` (excluding node): initial child of a compound, every region of a parallel."""
    out = set()
    if node.type == "compound" and node.initial and node.initial in node.states:
        c = node.states[node.initial]
        out.add(c)
        out |= default_entry(c)
    elif node.type == "parallel":
        for c in node.states.values():
            if c.type != "history":
                out.add(c)
                out |= default_entry(c)
    return out


def desc(n, p):
    cur = n
    while cur is not None:
        if cur is p:
            return True
        cur = cur.parent
    return False


def expected_below(P, h, recorded, machine, resolve):
    if not recorded:
        if h.target_str:
            t = resolve(h.target_str, h)
            if t is not None:
                exp = {t} | default_entry(t)
                cur = t.parent
                while cur is not None and cur is not P:
                    exp.add(cur)
                    cur = cur.parent
                return exp
        return default_entry(P)
    if h.history == "deep":
        leaves = {n for n in recorded if not any(c in recorded for c in n.states.values())}
        exp = set()
        for l in leaves:
            cur = l
            while cur is not None and cur is not P:
                exp.add(cur)
                cur = cur.parent
        return exp
    kids = {n for n in recorded if n.parent is P}
    exp = set()
    for k in kids:
        exp.add(k)
        exp |= default_entry(k)
    return exp


def _observe(it, tr_log):
    rec = {}     # parent id -> recorded set (driver's own bookkeeping)

    class Pl:
        def on_transition(self, i, before, after, t):
            b, a = set(before), set(after)
            tgt = None
            if t.target_str:
                try:
                    from xstate_statemachine.resolver import resolve_target_state
                    tgt = i._resolve_target_state_node(t)
                except Exception:
                    tgt = None
            if tgt is not None and tgt.type == "history" and tgt.parent is not None:
                P = tgt.parent
                if not desc(t.source, P) and P not in b:
                    got = {n for n in a if desc(n, P) and n is not P}

                    def resolve(s, ref):
                        try:
                            from xstate_statemachine.resolver import resolve_target_state
                            return resolve_target_state(s, ref)
                        except Exception:
                            return None
                    exp = expected_below(P, tgt, rec.get(P.id), i.machine, resolve)
                    tr_log.append({"h": tgt.id, "kind": tgt.history, "recorded": sorted(n.id for n in rec.get(P.id, [])),
                                   "expected": sorted(n.id for n in exp), "got": sorted(n.id for n in got)})
            # bookkeeping AFTER the check: parents exited by this transition
            for n in b:
                if n not in a and any(c.type == "history" for c in n.states.values()):
                    rec[n.id] = {x for x in b if desc(x, n) and x is not n}

        def on_event_received(self, *a):
            pass
    it.use(Pl())
    return rec


def run_case(case):
    from xstate_statemachine import SyncInterpreter, create_machine
    cfg, events = case["config"], case["events"]
    out = {}
    for variant in ("plain", "restore"):
        tr = M.Trace()
        m = create_machine(M.materialize(cfg), logic=M.make_logic(cfg, tr))
        it = SyncInterpreter(m)
        log = []
        rec = _observe(it, log)
        try:
            it.start()
        except Exception:
            out[variant] = None
            continue
        for ev in events:
            if variant == "restore" and it.status == "running":
                snap = it.get_snapshot()
                it2 = SyncInterpreter.from_snapshot(snap, m)
                it2._plugins = it._plugins
                it.stop()
                it = it2
            try:
                it.send(ev)
            except Exception:
                pass
        out[variant] = {"log": log, "final": M.snapshot_of(it)}
        it.stop()
    ra = None
    try:
        ra = M.run_async(cfg, events)
    except BaseException:
        ra = None
    out["async_final"] = None if (ra is None or ra.get("spin")) else (ra["steps"][-1] if ra["steps"] else None)
    return out


def post_check(case, res):
    out = []
    for variant in ("plain", "restore"):
        r = res.get(variant)
        if not r:
            continue
        for e in r["log"]:
            if e["expected"] != e["got"]:
                out.append({"key": f"history/{variant}:restored-configuration", "detail": json.dumps(e)})
                break
    if res.get("plain") and res.get("restore") and not out:
        if res["plain"]["final"]["config"] != res["restore"]["final"]["config"]:
            out.append({"key": "history/restore:same-outcome-as-live", "detail": f"{res['plain']['final']['config']} vs {res['restore']['final']['config']}"})
    return out


def nontrivial(case, res):
    return bool(res.get("plain") and res["plain"]["log"])

"""A deep, order-preserving structural fingerprint of a MachineNode (used by the
C17 / C19 run-time contracts: 'the built machine is the machine the config denotes')."""
import json


def _guard(g):
    if g is None:
        return None
    return {"type": g.type, "params": _val(g.params), "children": [_guard(c) for c in g.children]}


def _val(v):
    if callable(v):
        return "<callable>"
    if isinstance(v, dict):
        return {str(k): _val(x) for k, x in v.items()}
    if isinstance(v, (list, tuple)):
        return [_val(x) for x in v]
    try:
        json.dumps(v)
        return v
    except Exception:
        return repr(v)


def _actions(lst):
    return [{"type": a.type, "params": _val(a.params)} for a in lst]


def _target(machine, t):
    if not t.target_str:
        return None
    from xstate_statemachine.resolver import resolve_target_state
    for ref in (t.source, t.source.parent, machine):
        if ref is None:
            continue
        try:
            return resolve_target_state(t.target_str, ref).id
        except Exception:
            continue
    return "UNRESOLVED:" + str(t.target_str)


def _trans(machine, t):
    return {"target": _target(machine, t), "guard": _guard(t.guard_def), "actions": _actions(t.actions),
            "reenter": bool(t.reenter), "forbidden": bool(t.forbidden)}


def fingerprint(machine):
    def node(n):
        d = {"id": n.id, "type": n.type, "initial": n.initial, "history": n.history,
             "history_target": n.target_str if n.type == "history" else None,
             "tags": sorted(n.tags), "meta": _val(n.meta), "output": _val(n.output),
             "entry": _actions(n.entry), "exit": _actions(n.exit),
             "on": {ev: [_trans(machine, t) for t in ts] for ev, ts in n.on.items()},
             "on_done": _trans(machine, n.on_done) if n.on_done else None,
             "after": {str(k): [_trans(machine, t) for t in ts] for k, ts in n.after.items()},
             "invoke": [{"id": i.id, "src": i.src, "input": _val(i.input),
                         "on_done": [_trans(machine, t) for t in i.on_done],
                         "on_error": [_trans(machine, t) for t in i.on_error]} for i in n.invoke],
             "states": [node(c) for c in n.states.values()]}
        return d
    return {"root": node(machine), "context": _val(machine.initial_context), "max_iterations": machine.max_iterations}


def diff(a, b, path=""):
    """first difference between two fingerprints, as text (or None)"""
    if type(a) != type(b):
        return f"{path}: {a!r} vs {b!r}"
    if isinstance(a, dict):
        for k in list(a) + [k for k in b if k not in a]:
            if k not in a or k not in b:
                return f"{path}/{k}: only on one side ({a.get(k)!r} vs {b.get(k)!r})"
            d = diff(a[k], b[k], f"{path}/{k}")
            if d:
                return d
        if list(a) != list(b):
            return f"{path}: key order {list(a)} vs {list(b)}"
        return None
    if isinstance(a, list):
        if len(a) != len(b):
            return f"{path}: length {len(a)} vs {len(b)}"
        for i, (x, y) in enumerate(zip(a, b)):
            d = diff(x, y, f"{path}/{i}")
            if d:
                return d
        return None
    return None if a == b else f"{path}: {a!r} vs {b!r}"

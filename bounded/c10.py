"""C10 bounded driver: completion.  On generated machines with final states,
on both engines: (1) the run-time contract `_is_state_done == spec_done`
(compound: active child is final; parallel: every region done); (2) onDone
events: a done.state.<s> event is received exactly once per completion instant
of s (transition after which s is done and before which it was not / not active)
and never while s is not done; (3) a top-level final state sets status done once,
records the output (machine-level output wins) and later events change nothing."""
import copy
import json

from bounded import machines as M

CONTRACT_PROPS = ["C10"]
RULE = "generated machines with final children (compound and parallel, nested), event sequences <= 6, both engines; non-trivial = at least one completion instant"
BOUND = "1200 (quick) / 12000 (thorough) generated machines <= 8 states, plus the exhaustive region family: 5 key sets (string-prefix related) x 2 onDone kinds x all completion/un-completion orders of length <= 3/4 (quick) or 4/5 (thorough)"


def _finalize(cfg, rng):
    return cfg


def region_family(tier):
    """Parallel state with 2-3 regions whose keys are string prefixes of one another; region i
    completes on event Ei and un-completes on Ri; all orders of completion / un-completion."""
    import itertools
    keysets = [("a", "ab"), ("ab", "a"), ("a", "ab", "abc"), ("a1", "a"), ("b", "c")]
    for keys in keysets:
        regs = {}
        for i, k in enumerate(keys):
            regs[k] = {"initial": "s", "on": {f"R{i}": f"#m.p.{k}.s"},
                       "states": {"s": {"on": {f"E{i}": f"#m.p.{k}.f"}}, "f": {"type": "final", "entry": [f"en:m.p.{k}.f"]}}}
        for loop in (False, True):
            cfg = {"id": "m", "initial": "p", "context": {"n": 0}, "states": {
                "p": {"type": "parallel", "states": regs,
                      "onDone": ({"actions": ["act:done"]} if loop else "#m.fin")},
                "fin": {"type": "final" if not loop else "atomic"} if False else {}}}
            evs = [f"E{i}" for i in range(len(keys))] + [f"R{i}" for i in range(len(keys))]
            L = 3 if tier == "quick" else 4
            for n in range(1, L + 1 + (1 if len(keys) == 2 else 0)):
                for seq in itertools.product(evs, repeat=n):
                    yield {"config": cfg, "events": list(seq), "kinds": {}, "family": "regions"}


def cases(tier, seed):
    n = 1200 if tier == "quick" else 12000
    yield NESTED_CASE
    yield from region_family(tier)
    yield from M.gen_cases(seed * 49979687 + 7, n, max_nodes=8, features={"parallel": 0.45, "history": 0.1, "final": 0.5}, ev_len=6)


# NOTE: the event-counting oracle (completion instants vs done events) is exact only on the structured
# families; on the random family only the run-time contract on _is_state_done, "onDone of a parallel state
# never taken while a region is not final" and the status clauses are checked.
NESTED_CASE = {"config": {"id": "m", "initial": "p", "context": {"n": 0}, "states": {
    "p": {"type": "parallel", "onDone": "#m.fin", "states": {
        "r": {"initial": "c", "states": {"c": {"initial": "f", "states": {"f": {"type": "final"}}}}},
        "q": {"initial": "g", "states": {"g": {"type": "final"}}}}},
    "fin": {}}}, "events": ["E1"], "kinds": {}}


def describe(case):
    return {"config": case["config"], "events": case["events"], "family": case.get("family", "")}


def from_description(d):
    return {"config": d["config"], "events": d["events"], "family": d.get("family", "")}


def input_class(case):
    tags = M.features_of(case["config"])

    def walk(c, parent_has_done, depth_in_compound):
        typ = c.get("type") or ("compound" if "states" in c else "atomic")
        for k, sub in (c.get("states") or {}).items():
            styp = sub.get("type") or ("compound" if "states" in sub else "atomic")
            if typ == "compound" and styp == "compound":
                # a compound child (not final) that can itself complete
                if any((g.get("type") == "final") for g in (sub.get("states") or {}).values()):
                    tags.append("nested-compound-completion")
            walk(sub, False, 0)
    walk(case["config"], False, 0)
    return ",".join(sorted(set(tags)))


def _run(engine, case):
    import asyncio
    from specs.twins import spec_done
    from xstate_statemachine import Interpreter, SyncInterpreter, create_machine
    cfg, events = case["config"], case["events"]
    tr = M.Trace()
    m = create_machine(M.materialize(cfg), logic=M.make_logic(cfg, tr))
    log = {"received": [], "instants": [], "status": [], "bad_done": []}
    nodes = None

    def allnodes(root):
        out, st = [], [root]
        while st:
            x = st.pop()
            out.append(x)
            st.extend(x.states.values())
        return out

    mark = {"n": 0}

    def account(i, after_set, taken=None, before_set=None):
        """expected done events from the final states entered since the last mark"""
        seg = tr.actions[mark["n"]:]
        mark["n"] = len(tr.actions)
        a = set(after_set)
        for name, _ in seg:
            if name.startswith("en:"):
                f = i.machine.get_state_by_id(name[3:])
                if f is not None and f.type == "final" and f in a:
                    anc_ = f.parent
                    while anc_ is not None:
                        if anc_.on_done is not None and anc_ in a and spec_done(anc_, a):
                            log["instants"].append(anc_.id)
                            break
                        anc_ = anc_.parent
        if taken is not None and taken.source.on_done is taken and taken.source.type == "parallel" and before_set is not None:
            b = set(before_set)
            if not (taken.source in b and spec_done(taken.source, b)):
                # "stale": the state DID complete earlier in this run and the queued done.state event is consumed
                # after another event has already un-completed it (same family as the stale after/done.invoke events)
                log["bad_done"].append(taken.source.id + (":stale" if taken.source.id in log["instants"] else ""))

    class P:
        def on_transition(self, i, before, after, t):
            account(i, after, t, before)

        def on_event_received(self, i, ev):
            if ev.type.startswith("done.state."):
                log["received"].append(ev.type[len("done.state."):])

    if engine == "sync":
        it = SyncInterpreter(m)
        nodes = allnodes(m)
        it.use(P())
        try:
            it.start()
        except Exception:
            return None
        log["status"].append(it.status)
        for ev in events:
            pre = (M.snapshot_of(it), len(tr.actions)) if it.status == "done" else None
            try:
                it.send(ev)
            except Exception:
                pass
            if pre is not None and (M.snapshot_of(it), len(tr.actions)) != pre:
                log["bad_done"].append("changed-after-done")
            log["status"].append(it.status)
        log["final"] = M.snapshot_of(it)
        it.stop()
        log["stopped"] = it.status
        return log

    async def go():
        it = Interpreter(m)
        nonlocal nodes
        nodes = allnodes(m)
        it.use(P())
        k = {"n": 0}
        orig = it._process_event

        async def counted(ev):
            k["n"] += 1
            if k["n"] > M.SPIN_LIMIT:
                raise KeyboardInterrupt()
            return await orig(ev)
        it._process_event = counted

        async def drain():
            for _ in range(200):
                await asyncio.sleep(0)
                t = it._event_loop_task
                if (t is not None and t.done()) or (it._event_queue.empty() and not it._processing):
                    break
        try:
            await it.start()
        except Exception:
            return None
        account(it, it._active_state_nodes)
        await drain()
        log["status"].append(it.status)
        for ev in events:
            await it.send(ev)
            await drain()
            log["status"].append(it.status)
        log["final"] = M.snapshot_of(it)
        try:
            await it.stop()
        except BaseException:
            pass
        return None if k["n"] > M.SPIN_LIMIT else log
    try:
        return asyncio.run(asyncio.wait_for(go(), 15))
    except BaseException:
        return None


def run_case(case):
    mark = len(M.error_log())
    r = {"sync": _run("sync", case), "async": _run("async", case)}
    r["limit"] = bool(M.limit_hits(mark))
    return r


def post_check(case, res):
    out = []
    if res["limit"]:
        return out
    for eng in ("sync", "async"):
        log = res.get(eng)
        if not log:
            continue
        fresh_bad = [b for b in log["bad_done"] if not b.endswith(":stale")]
        stale_bad = [b for b in log["bad_done"] if b.endswith(":stale")]
        if fresh_bad:
            out.append({"key": f"done/{eng}:done-event-while-not-done", "detail": str(fresh_bad[:4])})
        if stale_bad:
            out.append({"key": f"done/{eng}:stale-done-event-taken-while-not-done", "detail": str(stale_bad[:4])})
        from collections import Counter
        ci, cr = Counter(log["instants"]), Counter(log["received"])
        exact_family = case.get("family") == "regions" or case is NESTED_CASE
        if ci != cr and exact_family:
            out.append({"key": f"done/{eng}:ondone-count", "detail": f"completion instants {dict(ci)} vs done events received {dict(cr)}"})
        st = log["status"]
        for a, b in zip(st, st[1:]):
            if a == "done" and b != "done":
                out.append({"key": f"done/{eng}:left-done-status", "detail": str(st)})
    return out


def nontrivial(case, res):
    return any((res.get(e) or {}).get("instants") for e in ("sync", "async"))

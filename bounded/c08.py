"""C08 bounded driver: delayed (after) transitions on both engines, real timers with
short delays (D = 40 ms) and generous margins.

Scenarios (exhaustive over the listed placements): stay >= delay -> fires once, not before
the delay; leave at 0.4 D -> never fires; leave and re-enter at 0.5 D -> fires D after the
RE-entry, once; two timers on one state (D and 2D) -> independent; named delay and
computed delay resolved at entry; stop() before expiry -> nothing fires; guard false at
expiry -> not taken; an AfterEvent that was already issued for a previous activation
(delivered after leave + re-enter) must not fire the new activation's transition."""
import asyncio
import time

CONTRACT_PROPS = ["C08"]
RULE = "scenario x engine; non-trivial = a timer was armed"
BOUND = "delay 40 ms, observation window 5 x delay, 9 scenarios x 2 engines x 2 repetitions"
D = 0.04
SCEN = ["stay", "leave", "reenter", "two", "named", "computed", "stop", "guard", "stale", "poll"]


def cases(tier, seed):
    reps = 2 if tier == "quick" else 6
    for r in range(reps):
        for s in SCEN:
            for e in ("sync", "async"):
                yield {"scenario": s, "engine": e, "rep": r}


def describe(c):
    return dict(c)


def from_description(d):
    return dict(d)


def input_class(c):
    return f"{c['scenario']},{c['engine']}"


def _machine(scen, log):
    from xstate_statemachine import MachineLogic, create_machine
    ms = int(D * 1000)
    after = {str(ms): {"target": "#m.t", "actions": ["fired"]}}
    if scen == "two":
        after[str(2 * ms)] = {"target": "#m.t2", "actions": ["fired2"]}
        after[str(ms)] = {"actions": ["fired"]}
    if scen == "named":
        after = {"SHORT": {"target": "#m.t", "actions": ["fired"]}}
    if scen == "computed":
        after = {"CALC": {"target": "#m.t", "actions": ["fired"]}}
    if scen == "guard":
        after = {str(ms): [{"target": "#m.t", "actions": ["fired"], "guard": "no"}]}
    if scen == "poll":      # polling idiom: the delayed transition re-enters its own state
        after = {str(ms): {"target": "#m.a", "reenter": True, "actions": ["fired"]}}
    cfg = {"id": "m", "initial": "a", "context": {"d": ms}, "states": {
        "a": {"entry": ["entered"], "after": after, "on": {"X": "#m.b"}},
        "b": {"on": {"Y": "#m.a"}}, "t": {}, "t2": {}}}

    def entered(i, c, e, a):
        log.append(("enter", time.monotonic()))

    def fired(i, c, e, a):
        log.append(("fired", time.monotonic()))

    def fired2(i, c, e, a):
        log.append(("fired2", time.monotonic()))
    logic = MachineLogic(actions={"entered": entered, "fired": fired, "fired2": fired2},
                         guards={"no": lambda c, e: False},
                         delays={"SHORT": ms, "CALC": lambda c, e: c["d"]})
    return create_machine(cfg, logic=logic)


def _script(scen):
    """list of (time offset in units of D, op)"""
    return {"stay": [], "two": [], "named": [], "computed": [], "guard": [],
            "leave": [(0.4, "X")], "reenter": [(0.5, "X"), (0.55, "Y")],
            "stop": [(0.4, "STOP")], "stale": [(0.3, "X"), (0.35, "Y"), (0.4, "STALE")],
            # one tick while idle (the timer thread itself re-enters the state), then leave and come back before the
            # next deadline: the delay must restart from the re-entry
            "poll": [(1.5, "X"), (1.6, "Y")]}[scen]


SLIP = 0.2        # tolerated lateness of a scripted operation, in units of D


def _slipped(res, scen):
    """The harness could not keep the scripted schedule (loaded machine): the run is not the scenario it names."""
    sent = [t for k, t in res["log"] if k == "sent"]
    return any(t - (res["t0"] + off * D) > SLIP * D for t, (off, _) in zip(sent, _script(scen)))


def run_case(case):
    # a run whose scripted operations were issued late is repeated (up to 4 tries); a run that stays late is reported
    # as not exercised (see nontrivial) rather than judged against a schedule it did not follow
    res = None
    for _ in range(4):
        res = _run_once(case)
        if not _slipped(res, case["scenario"]):
            break
    return res


def _run_once(case):
    from xstate_statemachine import Interpreter, SyncInterpreter
    from xstate_statemachine.events import AfterEvent
    scen = case["scenario"]
    log = []
    m = _machine(scen, log)
    stale = AfterEvent(type=f"after.{int(D * 1000)}.m.a")
    if case["engine"] == "sync":
        it = SyncInterpreter(m).start()
        t0 = time.monotonic()
        for off, op in _script(scen):
            time.sleep(max(0, t0 + off * D - time.monotonic()))
            log.append(("sent", time.monotonic()))
            if op == "STOP":
                it.stop()
            elif op == "STALE":
                log.append(("stale-sent", time.monotonic()))
                it.send(stale)
            else:
                it.send(op)
        time.sleep(max(0, t0 + 5 * D - time.monotonic()))
        want = {"stay": 1, "named": 1, "computed": 1, "reenter": 1, "two": 2, "poll": 3}.get(scen, 0)
        deadline = time.monotonic() + 3.0       # a loaded machine may fire late: wait for expected firings
        while sum(1 for k, _ in log if k.startswith("fired")) < want and time.monotonic() < deadline:
            time.sleep(0.01)
        res = {"log": log, "t0": t0, "final": sorted(it.current_state_ids), "status": it.status}
        it.stop()
        return res

    async def go():
        it = Interpreter(m)
        await it.start()
        t0 = time.monotonic()
        for off, op in _script(scen):
            await asyncio.sleep(max(0, t0 + off * D - time.monotonic()))
            log.append(("sent", time.monotonic()))
            if op == "STOP":
                await it.stop()
            elif op == "STALE":
                log.append(("stale-sent", time.monotonic()))
                await it.send(stale)
            else:
                await it.send(op)
        await asyncio.sleep(max(0, t0 + 5 * D - time.monotonic()))
        want = {"stay": 1, "named": 1, "computed": 1, "reenter": 1, "two": 2, "poll": 3}.get(scen, 0)
        deadline = time.monotonic() + 3.0
        while sum(1 for k, _ in log if k.startswith("fired")) < want and time.monotonic() < deadline:
            await asyncio.sleep(0.01)
        res = {"log": log, "t0": t0, "final": sorted(it.current_state_ids), "status": it.status}
        await it.stop()
        return res
    return asyncio.run(asyncio.wait_for(go(), 10))


def post_check(case, res):
    out = []
    scen, e = case["scenario"], case["engine"]
    log = res["log"]
    enters = [t for k, t in log if k == "enter"]
    fires = [t for k, t in log if k == "fired"]
    eps = 0.004

    def bad(key, detail):
        out.append({"key": f"after/{e}:{key}", "detail": f"{scen}: {detail}"})
    if _slipped(res, scen):
        return out          # schedule not realised even after retries: nothing is concluded from this run
    if scen in ("stay", "named", "computed"):
        if len(fires) != 1:
            bad("fired-count", f"{len(fires)} (expected 1)")
        elif fires[0] - enters[0] < D - eps:
            bad("fired-before-the-delay", f"{fires[0] - enters[0]:.4f}s < {D}")
        elif res["final"] != ["m.t"]:
            bad("wrong-target", str(res["final"]))
    if scen == "two":
        f2 = [t for k, t in log if k == "fired2"]
        if len(fires) != 1 or len(f2) != 1:
            bad("independent-timers", f"fired={len(fires)} fired2={len(f2)}")
        elif f2[0] - enters[0] < 2 * D - eps or fires[0] - enters[0] < D - eps:
            bad("fired-before-the-delay", "")
    if scen in ("leave", "stop", "guard"):
        if fires:
            bad("fired-after-leaving-or-stop-or-false-guard", f"{len(fires)}")
    if scen == "reenter":
        if len(fires) != 1:
            bad("fired-count", f"{len(fires)} (expected 1 after re-entry)")
        elif len(enters) >= 2 and fires[0] - enters[1] < D - eps:
            bad("re-entry-did-not-restart-the-delay", f"{fires[0] - enters[1]:.4f}s after re-entry")
    if scen == "poll":
        # every firing happens at least D after the most recent entry of the state that precedes it
        evs = sorted([(t, k) for k, t in log if k in ("enter", "fired")])
        last_enter = None
        for t, k in evs:
            if k == "enter":
                last_enter = t
            elif last_enter is not None and t - last_enter < D - eps:
                bad("fired-before-the-delay-of-the-current-activation", f"{t - last_enter:.4f}s after the latest entry (delay {D})")
                break
    if scen == "stale":
        st = [t for k, t in log if k == "stale-sent"]
        if fires and len(enters) >= 2 and fires[0] - enters[1] < D - eps:
            bad("stale-expiry-fired-new-activation", f"fired {fires[0] - enters[1]:.4f}s after re-entry (delay {D})")
    return out


def nontrivial(case, res):
    return not _slipped(res, case["scenario"])

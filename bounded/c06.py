"""C06 bounded driver: guards gate transitions exactly.

Exhaustive guard expressions to nesting depth 2 (quick) / 3 (thorough) over the atoms
  T (true)  F (false)  X (raises)  M (named, not implemented)  P (parameterised: true iff params['ok'])
  S (stateIn of the active state)  s (stateIn of an inactive state)  C (computed params -> ok)
combined with and / or / not under every operand spelling (children, params.guards,
params.children, params.guard for not), as `guard` and as the v4 `cond` key, in first and
second position of a candidate list and on an ancestor.  The real evaluator runs under the
run-time contract `result == spec_guard_value` / ImplementationMissingError iff the statement
says the guard must not be decided; the machine-level outcome (which candidate fired) is
compared with the same specification."""
import copy
import itertools

CONTRACT_PROPS = ["C06"]
RULE = "exhaustive guard expressions up to the stated depth x operand spellings x guard/cond x candidate position; non-trivial = composite guard or a guard that is false/raising/missing"
BOUND = "depth <= 2 (quick) / 3 (thorough, sampled operands) over 10 atoms"
ATOMS = ["T", "F", "X", "M", "P", "S", "s", "r", "R", "C"]


def atom(a):
    return {"T": "gT", "F": "gF", "X": "gX", "M": "gMissing",
            "P": {"type": "gParam", "params": {"ok": True}},
            "S": {"type": "stateIn", "params": {"state": "#m.xa"}},
            "r": {"type": "stateIn", "params": {"state": "a"}},        # relative spelling; only 'm.xa' is active: false
            "R": {"type": "stateIn", "params": {"state": "xa"}},       # relative spelling of the active state: true
            "s": {"type": "stateIn", "params": {"state": "m.b"}},
            "C": {"type": "gParam", "params": "__computed__"}}[a]


def spell(op, kids, style):
    if op == "not":
        k = kids[0]
        return {"type": "not", "children": [k]} if style == 0 else ({"type": "not", "params": {"guard": k}} if style == 1 else {"type": "not", "params": {"guards": [k]}})
    if style == 0:
        return {"type": op, "children": kids}
    if style == 1:
        return {"type": op, "params": {"guards": kids}}
    return {"type": op, "params": {"children": kids}}


def exprs(depth, tier):
    base = [("atom", a) for a in ATOMS]
    if depth == 0:
        return base
    sub = exprs(depth - 1, tier)
    out = list(base)
    pick = sub if (depth == 1) else sub[::7]
    for x in pick:
        out.append(("not", x))
    pairs = list(itertools.product(pick, pick)) if depth == 1 else list(itertools.product(pick[::3], pick[::2]))
    for a, b in pairs:
        out.append(("and", a, b))
        out.append(("or", a, b))
    return out


def build(e, style):
    if e[0] == "atom":
        return copy.deepcopy(atom(e[1]))
    if e[0] == "not":
        return spell("not", [build(e[1], style)], style)
    return spell(e[0], [build(e[1], style), build(e[2], style)], style)


def cases(tier, seed):
    depth = 2 if tier == "quick" else 3
    es = exprs(depth, tier)
    for k, e in enumerate(es):
        for style in (0, 1, 2):
            if e[0] == "atom" and style:
                continue
            for key in ("guard", "cond"):
                for pos in ("first", "second", "ancestor"):
                    if tier == "quick" and (k + style) % 3 and e[0] != "atom" and pos != "first":
                        continue
                    yield {"expr": repr(e), "e": e, "style": style, "key": key, "pos": pos}


def describe(case):
    return {"expr": case["expr"], "style": case["style"], "key": case["key"], "pos": case["pos"]}


def from_description(d):
    d = dict(d)
    d["e"] = eval(d["expr"])
    return d


def input_class(case):
    return ""


def _computed(cfg):
    """replace the "__computed__" marker by a callable (params computed from context/event)"""
    if isinstance(cfg, dict):
        return {k: ((lambda args: {"ok": args["context"]["ok"]}) if v == "__computed__" else _computed(v)) for k, v in cfg.items()}
    if isinstance(cfg, list):
        return [_computed(x) for x in cfg]
    return cfg


def run_case(case):
    from specs.twins import spec_guard_value
    from xstate_statemachine import MachineLogic, SyncInterpreter, create_machine
    from xstate_statemachine.events import Event
    from xstate_statemachine.exceptions import ImplementationMissingError
    g = _computed(build(case["e"], case["style"]))
    t = {"target": "#m.hit", case["key"]: g}
    fallback = {"target": "#m.fallback"}
    a_on = {"first": [t, fallback], "second": [{"target": "#m.never", "guard": "gF"}, t, fallback], "ancestor": None}[case["pos"]]
    cfg = {"id": "m", "initial": "xa", "context": {"ok": True}, "states": {
        "xa": {"on": ({"E": a_on} if a_on else {})}, "a": {}, "b": {}, "hit": {}, "fallback": {}, "never": {}},
        "on": ({"E": [t, fallback]} if case["pos"] == "ancestor" else {})}

    def gx(c, e):
        raise ValueError("boom")
    logic = MachineLogic(guards={"gT": lambda c, e: True, "gF": lambda c, e: False, "gX": gx,
                                 "gParam": lambda c, e, p: bool(p and p.get("ok"))})
    m = create_machine(cfg, logic=logic)
    it = SyncInterpreter(m).start()
    src = m.states["xa"] if case["pos"] != "ancestor" else m
    tdef = [x for x in src.on["E"] if x.target_str == "#m.hit"][0]
    spec = spec_guard_value(it, tdef.guard_def, Event("E"))
    raised = None
    try:
        it.send("E")
    except ImplementationMissingError:
        raised = "missing"
    except Exception as e:
        raised = type(e).__name__
    state = sorted(it.current_state_ids)
    status = it.status
    it.stop()
    return {"spec": spec, "raised": raised, "state": state, "status": status, "guarded": tdef.guard_def is not None}


def post_check(case, res):
    out = []
    spec, raised, state = res["spec"], res["raised"], res["state"]
    if not res["guarded"]:
        out.append({"key": "guard/parse:guarded-transition-became-unguarded", "detail": case["expr"]})
    if spec == "missing":
        if raised != "missing":
            out.append({"key": "guard/missing:decided-instead-of-ImplementationMissingError", "detail": f"{case['expr']} -> {state} raised={raised}"})
    else:
        want = ["m.hit"] if spec else ["m.fallback"]
        if raised or state != want:
            out.append({"key": "guard/outcome:wrong-candidate", "detail": f"{case['expr']} spec={spec} -> {state} raised={raised}"})
        if res["status"] != "running":
            out.append({"key": "guard/outcome:interpreter-disturbed", "detail": res["status"]})
    return out


def nontrivial(case, res):
    return case["e"][0] != "atom" or res["spec"] in (False, "missing")

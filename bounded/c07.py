"""C07 bounded driver: fault injection on the real engines.

 (a) a user action that raises (chosen so that nothing follows it in its list):
     configurations, context, status, output and the action trace are those of the
     fault-free run, and on_action_error is notified once per failing execution;
 (b) a plugin whose every hook raises, a raising subscriber: nothing changes at all;
 (c) an aborting error (action with no implementation): send() raises in the sync
     engine / is logged in the async engine, the configuration is the one before the
     failed transition, pending `after` timers of the restored states are re-armed
     (sync: one live timer per after-transition of every active state), and later
     events are still processed.
"""
import copy
import json
import random

from bounded import machines as M

CONTRACT_PROPS = ["C07"]
RULE = "generated machines x event sequences x one fault set per case; fault-free twin run compared; non-trivial = at least one injected fault actually executed"
BOUND = "700 (quick) / 7000 (thorough) machines per fault kind, <= 7 states, <= 5 events, sync and async"


def cases(tier, seed):
    n = 700 if tier == "quick" else 7000
    rng = random.Random(seed * 67867967 + 13)
    for c in M.gen_cases(seed * 67867967 + 1, n, features={"parallel": 0.35, "raise": 0.0, "after": 0.25}):
        names = sorted(_last_actions(c["config"]))
        c["faults"] = rng.sample(names, min(len(names), rng.randint(1, 3))) if names else []
        c["kind"] = "action"
        yield c
    for c in M.gen_cases(seed * 67867967 + 4, n // 2, features={"parallel": 0.35, "raise": 0.0, "boom": 0.5, "trans": 0.6}):
        c["faults"] = []
        c["kind"] = "builtin"
        yield c
    for c in M.gen_cases(seed * 67867967 + 2, n // 2, features={"parallel": 0.35, "after": 0.25}):
        c["faults"] = []
        c["kind"] = "observer"
        yield c
    for c in M.gen_cases(seed * 67867967 + 3, n, features={"parallel": 0.35, "missing_impl": 0.12, "after": 0.3, "raise": 0.0, "always": 0.0}):
        c["faults"] = []
        c["kind"] = "abort"
        yield c


def _last_actions(cfg):
    out = set()
    nonlast = set()

    def lst(l):
        if isinstance(l, list) and l:
            for a in l[:-1]:
                if isinstance(a, str):
                    nonlast.add(a)
            if isinstance(l[-1], str) and not l[-1].endswith("!missing") and l[-1] != "inc":
                out.add(l[-1])

    def tr(t):
        if isinstance(t, dict):
            lst(t.get("actions"))
        elif isinstance(t, list):
            for x in t:
                tr(x)

    def walk(c):
        lst(c.get("entry"))
        lst(c.get("exit"))
        for v in (c.get("on") or {}).values():
            tr(v)
        tr(c.get("always"))
        tr(c.get("onDone"))
        for s in (c.get("states") or {}).values():
            walk(s)
    walk(cfg)
    return out - nonlast


def describe(case):
    return {"config": case["config"], "events": case["events"], "faults": case["faults"], "kind": case["kind"]}


def from_description(d):
    return dict(d)


def input_class(case):
    return ",".join(M.features_of(case["config"]) + [case["kind"]])


class RaisingPlugin:
    def __getattr__(self, name):
        if name.startswith("on_"):
            def hook(*a, **k):
                raise RuntimeError("plugin boom " + name)
            return hook
        raise AttributeError(name)


def _timers(it):
    """owners of the live sync `after` timers"""
    return sorted(k.split("::")[0] for k in getattr(it, "_after_events", {}))


def _expected_timers(it):
    out = []
    for n in it._active_state_nodes:
        for d, ts in n.after.items():
            out += [n.id] * len(ts)
    return sorted(out)


def run_sync(case, faults, observers=False):
    from xstate_statemachine import SyncInterpreter, create_machine
    cfg = case["config"]
    tr = M.Trace()
    del M.BOOMS[:]
    m = create_machine(M.materialize(cfg), logic=M.make_logic(cfg, tr, faults={f: 1 for f in faults}))
    it = SyncInterpreter(m)
    errs = []

    class Rec:
        def on_action_error(self, i, a, e):
            errs.append(a.type)

        def on_transition(self, *a):
            ntr[0] += 1

        def on_event_received(self, *a):
            pass
    ntr = [0]
    it.use(Rec())
    if observers:
        it.use(RaisingPlugin())
        it.subscribe(lambda i: (_ for _ in ()).throw(RuntimeError("subscriber boom")))
        it.on("*", lambda e: (_ for _ in ()).throw(RuntimeError("listener boom")))
    try:
        it.start()
    except Exception as e:
        it.stop()
        return {"start_failed": type(e).__name__}
    steps = [M.snapshot_of(it)]
    aborts = []
    for ev in case["events"]:
        before = M.snapshot_of(it)
        tb = _timers(it)
        n0 = ntr[0]
        raised = None
        try:
            it.send(ev)
        except Exception as e:
            raised = type(e).__name__
        steps.append(M.snapshot_of(it))
        if raised:
            aborts.append({"event": ev, "exc": raised, "before": before["config"], "after": steps[-1]["config"],
                           "completed_transitions": ntr[0] - n0, "timers": _timers(it), "expected_timers": _expected_timers(it),
                           "status": it.status})
    res = {"steps": steps, "actions": list(tr.actions), "action_errors": errs, "aborts": aborts, "booms": len(M.BOOMS)}
    it.stop()
    return res


def run_case(case):
    out = {"kind": case["kind"]}
    out["free"] = run_sync(case, [])
    if case["kind"] == "action":
        out["faulty"] = run_sync(case, case["faults"])
        try:
            out["afree"] = M.run_async(case["config"], case["events"])
            out["afaulty"] = M.run_async(case["config"], case["events"], faults={f: 1 for f in case["faults"]})
        except BaseException:
            out["afree"] = out["afaulty"] = None
    elif case["kind"] == "observer":
        out["faulty"] = run_sync(case, [], observers=True)
    return out


def post_check(case, res):
    out = []
    free = res["free"]
    if "start_failed" in free:
        return out
    kind = res["kind"]
    if kind in ("action", "observer"):
        f = res["faulty"]
        if "start_failed" in f:
            out.append({"key": f"containment/{kind}:start-failed-only-with-fault", "detail": f["start_failed"]})
            return out
        if f["steps"] != free["steps"]:
            k = next(i for i, (a, b) in enumerate(zip(f["steps"], free["steps"])) if a != b)
            out.append({"key": f"containment/{kind}:configurations-differ-from-fault-free-run", "detail": f"step {k}: {f['steps'][k]} vs {free['steps'][k]}"})
        elif f["actions"] != free["actions"]:
            out.append({"key": f"containment/{kind}:actions-differ-from-fault-free-run", "detail": f"{f['actions'][:10]} vs {free['actions'][:10]}"})
        if kind == "action":
            nfault = sum(1 for n, _ in f["actions"] if n in case["faults"])
            if nfault != len(f["action_errors"]):
                out.append({"key": "containment/action:on_action_error-count", "detail": f"{nfault} failing executions, {len(f['action_errors'])} notifications"})
            a0, a1 = res.get("afree"), res.get("afaulty")
            if a0 and a1 and not a0.get("spin") and not a1.get("spin") and not a0.get("start_failed"):
                if a0["steps"] != a1["steps"]:
                    out.append({"key": "containment/action-async:configurations-differ-from-fault-free-run", "detail": ""})
    if kind == "builtin":
        if free["booms"] != len(free["action_errors"]):
            out.append({"key": "containment/builtin:on_action_error-count", "detail": f"{free['booms']} failing built-in executions, {len(free['action_errors'])} notifications"})
        if any(s["status"] not in ("running", "done") for s in free["steps"]):
            out.append({"key": "containment/builtin:status", "detail": ""})
    if kind == "abort":
        for ab in free["aborts"]:
            if ab["status"] != "running":
                out.append({"key": "abort/sync:status-left-running", "detail": json.dumps(ab)})
            if ab["completed_transitions"] == 0 and ab["before"] != ab["after"]:
                out.append({"key": "abort/sync:configuration-not-restored", "detail": json.dumps(ab)})
            from collections import Counter
            # every after-transition of every (restored) active state has a live timer again; timers armed for
            # states the aborted transition had started to enter are outside this property's statement
            if ab["completed_transitions"] == 0 and (Counter(ab["expected_timers"]) - Counter(ab["timers"])):
                out.append({"key": "abort/sync:timers-not-rearmed", "detail": json.dumps(ab)})
            if out:
                break
    return out


def nontrivial(case, res):
    if res["kind"] == "action":
        f = res.get("faulty") or {}
        return any(n in case["faults"] for n, _ in f.get("actions", []))
    if res["kind"] == "abort":
        return bool(res["free"].get("aborts"))
    if res["kind"] == "builtin":
        return res["free"].get("booms", 0) > 0
    return True

"""C09 bounded driver: invoked services on both engines (short real delays).

Scenarios: sync/async callable returning a value (done carries it, input passed, onDone once);
raising with onError (error carries the exception); raising without onError (status error,
exception recorded); two invokes on one state (each started once per entry); re-entry starts
the services again; async service still running when the state is exited (cancelled, no
completion event, no task left); exited and re-entered before the first activation's service
returns (only the current activation's result is processed); stop() while running (no task
left); a completion event of an earlier activation delivered after leave + re-enter must be
discarded."""
import asyncio
import time

CONTRACT_PROPS = ["C09"]
RULE = "scenario x engine x repetition; non-trivial = at least one service was started"
BOUND = "service latency 30 ms; 10 scenarios x 2 engines x 2 (quick) / 6 (thorough) repetitions"
L = 0.03
SCEN = ["ok", "fail-handled", "fail-unhandled", "two", "reenter", "exit-early", "reenter-early", "stop-early", "stale",
        # the invoking state is compound and is entered through one of its descendants / its history pseudo-state
        "compound-child", "compound-history"]


def cases(tier, seed):
    reps = 2 if tier == "quick" else 6
    for r in range(reps):
        for s in SCEN:
            for e in ("sync", "async"):
                if e == "sync" and s in ("exit-early", "reenter-early", "stop-early"):
                    continue     # sync services run to completion inside entry: no in-flight window
                yield {"scenario": s, "engine": e, "rep": r}


def describe(c):
    return dict(c)


def from_description(d):
    return dict(d)


def input_class(c):
    return f"{c['scenario']},{c['engine']}"


def _machine(scen, eng, log):
    from xstate_statemachine import MachineLogic, create_machine
    starts = log.setdefault("starts", [])

    def mk(name, fail=False):
        if eng == "async":
            async def svc(i, c, e):
                log.setdefault("t_start", []).append(time.monotonic())
                starts.append((name, e.payload.get("input")))
                k = len([s for s in starts if s[0] == name])
                await asyncio.sleep(L)
                if fail:
                    raise RuntimeError(f"{name} boom")
                return f"{name}#{k}"
        else:
            def svc(i, c, e):
                starts.append((name, e.payload.get("input")))
                k = len([s for s in starts if s[0] == name])
                if fail:
                    raise RuntimeError(f"{name} boom")
                return f"{name}#{k}"
        return svc

    def got(i, c, e, a):
        log.setdefault("done", []).append(getattr(e, "data", None))

    def goterr(i, c, e, a):
        log.setdefault("err", []).append(repr(getattr(e, "data", None)))
    inv = {"src": "s1", "id": "i1", "input": {"k": 7}, "onDone": {"actions": ["got"]}}
    if scen == "fail-handled":
        inv = {"src": "f1", "id": "i1", "onDone": {"actions": ["got"]}, "onError": {"target": "#m.failed", "actions": ["goterr"]}}
    if scen == "fail-unhandled":
        inv = {"src": "f1", "id": "i1", "onDone": {"actions": ["got"]}}
    invs = [inv]
    if scen == "two":
        invs = [inv, {"src": "s2", "id": "i2", "onDone": {"actions": ["got"]}}]
    cfg = {"id": "m", "initial": "idle", "context": {}, "states": {
        "idle": {"on": {"GO": "#m.a"}},
        "a": {"invoke": invs, "on": {"X": "#m.b"}}, "b": {"on": {"Y": "#m.a"}}, "failed": {}}}
    if scen in ("compound-child", "compound-history"):
        cfg["states"]["idle"]["on"] = {"GO": "#m.a.a2" if scen == "compound-child" else "#m.a.h"}
        cfg["states"]["a"].update({"initial": "a1", "states": {"a1": {}, "a2": {}, "h": {"type": "history", "history": "shallow"}}})
    logic = MachineLogic(actions={"got": got, "goterr": goterr},
                         services={"s1": mk("s1"), "s2": mk("s2"), "f1": mk("f1", fail=True)})
    return create_machine(cfg, logic=logic)


SCRIPT = {"compound-child": ["GO"], "compound-history": ["GO"], "ok": ["GO"], "fail-handled": ["GO"], "fail-unhandled": ["GO"], "two": ["GO"],
          "reenter": ["GO", "WAIT", "X", "Y"], "exit-early": ["GO", "X"], "reenter-early": ["GO", "X", "Y"],
          "stop-early": ["GO", "STOP"], "stale": ["GO", "WAIT", "X", "Y", "WAIT", "STALE"]}


EARLY = {"exit-early": "X", "reenter-early": "X", "stop-early": "STOP"}


def _slipped(case, res):
    """The "early" scenarios need the interrupting operation to arrive while the service (latency L) is still running.
    On a loaded machine the harness can be late: such a run is not the scenario it names."""
    scen = case["scenario"]
    if case["engine"] != "async" or scen not in EARLY:
        return False
    ts, ops = res["log"].get("t_start", []), res["log"].get("t_op", [])
    t_int = [t for o, t in ops if o == EARLY[scen]]
    return bool(ts and t_int and t_int[0] - ts[0] > 0.7 * L)


def run_case(case):
    res = None
    for _ in range(4):          # a run whose schedule slipped is repeated; one that stays late concludes nothing
        res = _run_once(case)
        if not _slipped(case, res):
            break
    return res


def _run_once(case):
    from xstate_statemachine import Interpreter, SyncInterpreter
    from xstate_statemachine.events import DoneEvent
    scen, eng = case["scenario"], case["engine"]
    log = {}
    m = _machine(scen, eng, log)
    stale = DoneEvent(type="done.invoke.i1", data="STALE", src="i1")
    if eng == "sync":
        it = SyncInterpreter(m).start()
        for op in SCRIPT[scen]:
            if op == "WAIT":
                time.sleep(0.01)
            elif op == "STOP":
                it.stop()
            elif op == "STALE":
                it.send(stale)
            else:
                it.send(op)
        res = {"log": log, "status": it.status, "error": repr(it.error), "final": sorted(it.current_state_ids), "tasks": 0}
        it.stop()
        return res

    async def go():
        it = Interpreter(m)
        await it.start()
        for op in SCRIPT[scen]:
            if op == "WAIT":
                await asyncio.sleep(3 * L)
            elif op == "STOP":
                await asyncio.sleep(L / 3)
                log.setdefault("t_op", []).append((op, time.monotonic()))
                await it.stop()
            elif op == "STALE":
                await it.send(stale)
            else:
                log.setdefault("t_op", []).append((op, time.monotonic()))
                await it.send(op)
                await asyncio.sleep(L / 3)
        await asyncio.sleep(4 * L)
        deadline = time.monotonic() + 2.0
        want = {"ok": 1, "two": 2, "reenter": 2, "reenter-early": 1, "compound-child": 1, "compound-history": 1}.get(scen, 0)
        while len(log.get("done", [])) < want and time.monotonic() < deadline:
            await asyncio.sleep(0.01)
        tasks = [t for ts in it.task_manager._tasks_by_owner.values() for t in ts if not t.done()]
        res = {"log": log, "status": it.status, "error": repr(it.error), "final": sorted(it.current_state_ids),
               "tasks": len(tasks) if scen in ("exit-early", "stop-early") else 0}
        if it.status != "stopped":
            await it.stop()
        return res
    return asyncio.run(asyncio.wait_for(go(), 12))


def post_check(case, res):
    out = []
    if _slipped(case, res):
        return out
    scen, e = case["scenario"], case["engine"]
    log = res["log"]
    starts, done, err = log.get("starts", []), log.get("done", []), log.get("err", [])

    def bad(key, detail):
        out.append({"key": f"invoke/{e}:{key}", "detail": f"{scen}: {detail}"})
    if scen in ("ok", "compound-child", "compound-history"):
        if starts != [("s1", {"k": 7})]:
            bad("started-once-with-input", str(starts))
        if done != ["s1#1"]:
            bad("exactly-one-done-with-return-value", str(done))
    if scen == "two":
        if sorted(n for n, _ in starts) != ["s1", "s2"] or sorted(done) != ["s1#1", "s2#1"]:
            bad("each-invoke-once", f"starts={starts} done={done}")
    if scen == "fail-handled":
        if len(err) != 1 or "boom" not in err[0] or res["final"] != ["m.failed"] or done:
            bad("error-drives-onError", f"err={err} final={res['final']} done={done}")
        if res["status"] != "running":
            bad("handled-failure-changed-status", res["status"])
    if scen == "fail-unhandled":
        if res["status"] != "error" or "boom" not in res["error"]:
            bad("unhandled-failure-sets-error-status", f"{res['status']} {res['error']}")
    if scen == "reenter":
        if [n for n, _ in starts] != ["s1", "s1"] or done != ["s1#1", "s1#2"]:
            bad("one-start-per-entry", f"starts={starts} done={done}")
    if scen == "exit-early":
        if done or res["tasks"]:
            bad("result-or-task-after-exit", f"done={done} tasks={res['tasks']}")
    if scen == "reenter-early":
        if done != ["s1#2"]:
            bad("only-current-activation-result", f"done={done}")
    if scen == "stop-early":
        if done or res["tasks"]:
            bad("result-or-task-after-stop", f"done={done} tasks={res['tasks']}")
    if scen == "stale":
        if "STALE" in done:
            bad("stale-completion-accepted-by-new-activation", f"done={done}")
    return out


def nontrivial(case, res):
    return bool(res["log"].get("starts"))

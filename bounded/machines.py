"""Shared small-scope machine families and run harnesses for the bounded layer.

Machines are generated from a seeded RNG (VERIF_SEED) over a grammar that
covers: compound / parallel / final / history states, sibling keys that are
string prefixes of one another, cross-branch / ancestor / descendant / self /
reenter / targetless / forbidden / history / root targets, guards (true, false,
raising, composite, stateIn), always, onDone, raise, entry/exit/transition
actions that record a trace.
"""
from __future__ import annotations

import asyncio
import copy
import json
import random
from typing import Any, Dict, List, Optional, Tuple

EVENTS = ["E1", "E2", "E3"]
BOOMS = []          # executions of the deliberately raising built-in assign ("incboom")
SPIN_LIMIT = 300   # events processed by one async run before the harness breaks a never-idle run loop
KEYS = ["a", "ab", "b", "a1", "c", "abc"]


class Gen:
    def __init__(self, rng: random.Random, max_nodes=7, features=None):
        self.rng = rng
        self.max_nodes = max_nodes
        self.count = 0
        self.features = features or {}
        self.all_ids: List[str] = []
        self.kinds: Dict[str, str] = {}

    def p(self, name, default):
        return self.features.get(name, default)

    def state(self, path: str, depth: int, allow_final: bool, parent_kind: str) -> Dict[str, Any]:
        rng = self.rng
        self.count += 1
        self.all_ids.append(path)
        room = self.max_nodes - self.count
        r = rng.random()
        if depth >= 3 or room < 2 or r < 0.45:
            if allow_final and rng.random() < self.p("final", 0.3):
                self.kinds[path] = "final"
                return {"type": "final"}
            self.kinds[path] = "atomic"
            return {}
        kind = "parallel" if rng.random() < self.p("parallel", 0.3) else "compound"
        self.kinds[path] = kind
        nkids = rng.randint(2, 3) if kind == "parallel" else rng.randint(1, 3)
        nkids = max(1, min(nkids, room))
        keys = rng.sample(KEYS, nkids)
        st: Dict[str, Any] = {"states": {}}
        if kind == "parallel":
            st["type"] = "parallel"
        for k in keys:
            st["states"][k] = self.state(f"{path}.{k}", depth + 1, allow_final=(kind == "compound"), parent_kind=kind)
        if kind == "compound":
            nonfinal = [k for k in keys]
            st["initial"] = rng.choice(nonfinal)
            if rng.random() < self.p("history", 0.25):
                hk = "h"
                st["states"][hk] = {"type": "history", "history": rng.choice(["shallow", "deep"])}
                if rng.random() < 0.4:
                    st["states"][hk]["target"] = rng.choice(keys)
                self.kinds[f"{path}.{hk}"] = "history"
                self.all_ids.append(f"{path}.{hk}")
        elif rng.random() < self.p("history_parallel", 0.0):
            st["states"]["h"] = {"type": "history", "history": rng.choice(["shallow", "deep"])}
            self.kinds[f"{path}.h"] = "history"
            self.all_ids.append(f"{path}.h")
        return st

    def walk(self, cfg, path):
        yield path, cfg
        for k, sub in cfg.get("states", {}).items():
            yield from self.walk(sub, f"{path}.{k}")

    def machine(self) -> Dict[str, Any]:
        rng = self.rng
        self.count = 0
        self.all_ids = []
        self.kinds = {}
        root = self.state("m", 0, False, "root")
        if "states" not in root:
            root = {"initial": "a", "states": {"a": {}, "b": {}}}
            self.all_ids = ["m", "m.a", "m.b"]
            self.kinds = {"m": "compound", "m.a": "atomic", "m.b": "atomic"}
        root["id"] = "m"
        root["maxIterations"] = 12
        root["context"] = {"n": 0}
        nodes = list(self.walk(root, "m"))
        targets = [i for i in self.all_ids if i != "m"]
        for path, cfg in nodes:
            kind = self.kinds.get(path)
            if kind == "history":
                continue
            cfg["entry"] = [f"en:{path}"]
            cfg["exit"] = [f"ex:{path}"]
            if path != "m" and rng.random() < self.p("missing_impl", 0.0):
                cfg[rng.choice(["entry", "exit"])].append(f"nope:{path}!missing")
            if kind == "final":
                if rng.random() < 0.3:
                    cfg["output"] = {"from": path}
                continue
            on: Dict[str, Any] = {}
            for ev in EVENTS:
                if rng.random() < self.p("trans", 0.45):
                    cands = []
                    for _ in range(rng.choice([1, 1, 2])):
                        cands.append(self.transition(path, targets, ev))
                    on[ev] = cands if len(cands) > 1 or rng.random() < 0.3 else cands[0]
                elif rng.random() < self.p("forbidden", 0.05):
                    on[ev] = None
            if on:
                cfg["on"] = on
            if kind in ("compound", "parallel") and path != "m" and rng.random() < 0.5:
                # an onDone that re-enters its own completed state re-completes it for ever
                # (a known finding of C13 on the async engine): only the C13 driver asks for it
                outside = [t for t in targets if not (t == path or t.startswith(path + ".") or path.startswith(t + "."))] or [t for t in targets if self.kinds.get(t) == "atomic"] or targets
                cfg["onDone"] = self.transition(path, outside if not self.p("ondone_self", 0) else targets, "done")
                if not self.p("ondone_self", 0) and cfg["onDone"].get("target", "").lstrip("#") in ("", path):
                    cfg["onDone"]["target"] = "#" + rng.choice(outside)
            if kind in ("atomic", "compound") and path != "m" and rng.random() < self.p("after", 0.0):
                cfg["after"] = {str(rng.choice([100000, 200000])): self.transition(path, targets, "after")}
                if rng.random() < 0.3:
                    cfg["after"]["300000"] = self.transition(path, targets, "after2")
            if kind == "atomic" and rng.random() < self.p("always", 0.12):
                t = self.transition(path, targets, "always")
                t.pop("cond", None)
                t["guard"] = rng.choice(["gF", "gOdd", "gF"])
                cfg["always"] = [t]
        if rng.random() < self.p("root_on", 0.3):
            root["on"] = {rng.choice(EVENTS): self.transition("m", targets, "root")}
        return root

    def transition(self, source: str, targets: List[str], ev: str) -> Dict[str, Any]:
        rng = self.rng
        t: Dict[str, Any] = {}
        r = rng.random()
        if r < 0.12:
            pass  # targetless
        elif r < 0.2 and source != "m":
            t["target"] = "#" + source
            if rng.random() < 0.5:
                t["reenter"] = True
        elif r < 0.2 + self.p("root_target", 0.0):
            t["target"] = "#m"
        else:
            t["target"] = "#" + rng.choice(targets)
        if rng.random() < 0.5:
            t["actions"] = [f"act:{source}:{ev}:{rng.randint(0, 9)}"]
            if rng.random() < self.p("missing_impl", 0.0):
                t["actions"].append(f"nope:{source}:{ev}!missing")
            if rng.random() < self.p("raise", 0.15):
                t["actions"].append({"type": "xstate.raise", "params": {"event": {"type": rng.choice(EVENTS)}}})
            if rng.random() < 0.2:
                t["actions"].append("inc")
            if rng.random() < self.p("boom", 0.0):
                t["actions"].append("incboom")
        g = rng.random()
        if g < 0.15:
            t["guard"] = "gT"
        elif g < 0.3:
            t["guard"] = "gF"
        elif g < 0.36:
            t["cond"] = "gX"
        elif g < 0.42:
            t["guard"] = {"type": rng.choice(["and", "or"]), "children": ["gT", {"type": "not", "children": ["gF"]}, rng.choice(["gT", "gF", "gX"])]}
        elif g < 0.47:
            t["guard"] = {"type": "stateIn", "params": {"state": "#" + rng.choice(targets)}}
        return t


class Trace:
    def __init__(self):
        self.actions: List[Tuple[str, str]] = []
        self.guards: List[str] = []


def make_logic(config, trace: Trace, faults=None):
    from xstate_statemachine import MachineLogic
    faults = faults or {}
    names = set()

    def collect(c):
        for key in ("entry", "exit"):
            v = c.get(key, []) or []
            for a in (v if isinstance(v, list) else [v]):
                names.add(a if isinstance(a, str) else (a.get("type") if isinstance(a, dict) else None))
        def tr(t):
            if isinstance(t, dict):
                v = t.get("actions", []) or []
                for a in (v if isinstance(v, list) else [v]):
                    names.add(a if isinstance(a, str) else (a.get("type") if isinstance(a, dict) else None))
            elif isinstance(t, list):
                for x in t:
                    tr(x)
        on = c.get("on") or {}
        for v in (on.values() if isinstance(on, dict) else []):
            tr(v)
        tr(c.get("always"))
        tr(c.get("onDone"))
        af = c.get("after") or {}
        for v in (af.values() if isinstance(af, dict) else []):
            tr(v)
        st = c.get("states") or {}
        for sub in (st.values() if isinstance(st, dict) else []):
            if isinstance(sub, dict):
                collect(sub)
    collect(config)
    actions = {}
    for n in names:
        if not isinstance(n, str) or n.startswith("xstate.") or n in ("inc", "incboom") or n.endswith("!missing"):
            continue

        def act(i, ctx, ev, ad, _n=n):
            trace.actions.append((_n, getattr(ev, "type", "?")))
            if _n in faults:
                raise RuntimeError("fault:" + _n)
        actions[n] = act


    def gX(ctx, ev):
        trace.guards.append("gX")
        raise ValueError("guard boom")
    guards = {"gT": lambda c, e: True, "gF": lambda c, e: False, "gX": gX,
              "gOdd": lambda c, e: c.get("n", 0) % 2 == 1}
    return MachineLogic(actions=actions, guards=guards)


def error_log():
    """ERROR-level messages the library logged so far (captured by check.py)."""
    import sys
    mod = sys.modules.get("__main__")
    cap = getattr(mod, "_Capture", None)
    return cap.records if cap else []


def limit_hits(since=0):
    return [m for m in error_log()[since:] if "Exceeded" in m]


def materialize(config):
    """Deep copy of a generated (JSON-able) config with the marker action "inc"
    replaced by the built-in assign action (a context update every engine,
    including the pure API, must apply)."""
    def inc(args):
        return {"n": args["context"].get("n", 0) + 1}

    def boom(args):
        BOOMS.append(1)
        raise RuntimeError("assignment boom")

    def fix_one(a):
        if a == "inc":
            return {"type": "xstate.assign", "params": {"assignment": inc}}
        if a == "incboom":
            return {"type": "xstate.assign", "params": {"assignment": boom}}
        return a

    def fix_actions(lst):
        return [fix_one(a) for a in lst] if isinstance(lst, list) else fix_one(lst)

    def tr(t):
        if isinstance(t, dict):
            t = dict(t)
            if "actions" in t:
                t["actions"] = fix_actions(t["actions"])
            return t
        if isinstance(t, list):
            return [tr(x) for x in t]
        return t

    def walk(c):
        c = dict(c)
        for k in ("entry", "exit"):
            if k in c:
                c[k] = fix_actions(c[k])
        if isinstance(c.get("on"), dict):
            c["on"] = {e: tr(v) for e, v in c["on"].items()}
        for k in ("always", "onDone"):
            if k in c:
                c[k] = tr(c[k])
        if isinstance(c.get("states"), dict):
            c["states"] = {k: (walk(v) if isinstance(v, dict) else v) for k, v in c["states"].items()}
        return c
    return walk(copy.deepcopy(config))


def snapshot_of(interp):
    return {"config": sorted(n.id for n in interp._active_state_nodes), "status": interp.status,
            "context": copy.deepcopy(interp.context), "output": copy.deepcopy(interp.output)}


def run_sync(config, events, faults=None, observer=None):
    from xstate_statemachine import SyncInterpreter, create_machine
    tr = Trace()
    try:
        m = create_machine(materialize(config), logic=make_logic(config, tr, faults))
    except Exception as e:
        return {"steps": [], "actions": [], "errors": [("create", type(e).__name__, str(e)[:200])], "interp": None, "start_failed": True}
    it = SyncInterpreter(m)
    if observer:
        observer(it)
    steps = []
    errs = []
    try:
        it.start()
    except Exception as e:
        # the library refused to start this machine: out of the properties' scope from here on
        return {"steps": [], "actions": list(tr.actions), "errors": [("start", type(e).__name__)], "interp": it, "start_failed": True}
    steps.append(snapshot_of(it))
    for ev in events:
        try:
            it.send(ev)
        except Exception as e:
            errs.append((ev, type(e).__name__))
        steps.append(snapshot_of(it))
    res = {"steps": steps, "actions": list(tr.actions), "errors": errs, "interp": it}
    try:
        it.stop()
    except Exception:
        pass
    return res


def run_async(config, events, faults=None):
    from xstate_statemachine import Interpreter, create_machine

    class Spin(BaseException):
        """raised by the harness to get out of a run loop that never idles (C13 finding)"""

    async def go():
        tr = Trace()
        m = create_machine(materialize(config), logic=make_logic(config, tr, faults))
        it = Interpreter(m)
        steps, errs = [], []
        count = {"n": 0}
        orig = it._process_event

        async def counted(ev):
            count["n"] += 1
            if count["n"] > SPIN_LIMIT:
                raise Spin()
            return await orig(ev)
        it._process_event = counted
        try:
            await it.start()
        except Exception as e:
            return {"steps": [], "actions": list(tr.actions), "errors": [("start", type(e).__name__)], "start_failed": True, "spin": False}
        await drain(it)
        steps.append(snapshot_of(it))
        for ev in events:
            await it.send(ev)
            await drain(it)
            steps.append(snapshot_of(it))
        res = {"steps": steps, "actions": list(tr.actions), "errors": errs, "spin": count["n"] > SPIN_LIMIT}
        try:
            await it.stop()
        except Exception:
            pass
        return res

    async def drain(it):
        for _ in range(200):
            await asyncio.sleep(0)
            t = it._event_loop_task
            if t is not None and t.done():
                break
            if it._event_queue.empty() and not it._processing:
                break
    return asyncio.run(asyncio.wait_for(go(), 20))


def run_pure(config, events):
    from xstate_statemachine import create_machine
    from xstate_statemachine.helpers import initial_transition, transition
    tr = Trace()
    m = create_machine(materialize(config), logic=make_logic(config, tr))
    steps, acts = [], []
    snap, a = initial_transition(m)
    acts.append([x.type for x in a])
    steps.append({"config": sorted(snap.configuration), "status": snap.status, "context": copy.deepcopy(snap.context), "output": snap.output})
    for ev in events:
        snap, a = transition(m, snap, ev)
        acts.append([x.type for x in a])
        steps.append({"config": sorted(snap.configuration), "status": snap.status, "context": copy.deepcopy(snap.context), "output": snap.output})
    return {"steps": steps, "reported": acts, "user_actions_run": list(tr.actions)}


def gen_cases(seed: int, n: int, max_nodes=7, features=None, ev_len=5):
    rng = random.Random(seed)
    for k in range(n):
        g = Gen(rng, max_nodes=rng.randint(3, max_nodes), features=features)
        cfg = g.machine()
        evs = [rng.choice(EVENTS + ["ZZ"]) for _ in range(rng.randint(1, ev_len))]
        yield {"config": cfg, "events": evs, "kinds": dict(g.kinds)}


def features_of(config) -> List[str]:
    """Input-class tags used to match known findings."""
    tags = set()

    def walk(c, path, parent_type):
        typ = c.get("type") or ("compound" if "states" in c else "atomic")
        if typ == "history" and parent_type == "parallel":
            tags.add("history-under-parallel")
        def tr(t):
            if isinstance(t, dict):
                if t.get("target") == "#m":
                    tags.add("target-is-root")
            elif isinstance(t, list):
                for x in t:
                    tr(x)
        for v in (c.get("on") or {}).values():
            tr(v)
        tr(c.get("always"))
        tr(c.get("onDone"))
        for k, sub in (c.get("states") or {}).items():
            walk(sub, f"{path}.{k}", typ)
    walk(config, "m", "root")
    return sorted(tags)

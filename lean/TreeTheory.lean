/-
  Layer L: the tree-theory axioms handed to z3 by /verif/specs/xsm.py (T-*), proved for EVERY
  parent-pointer tree with a depth function, i.e. for the structure StateNode.__init__ builds:
    parent root = none,  depth n = depth (parent n) + 1,  a node without parent is the root.
  `anc n a` (a is n or an ancestor of n) is the reflexive-transitive closure of the parent step.
  Correspondence with the SMT axioms is by inspection (names in the comments).
-/
import Mathlib.Logic.Relation
import Mathlib.Tactic

structure PTree (α : Type) where
  parent : α → Option α
  depth : α → Nat
  root : α
  root_parent : parent root = none
  depth_parent : ∀ n p, parent n = some p → depth n = depth p + 1
  root_unique : ∀ n, parent n = none → n = root

namespace PTree
variable {α : Type} (t : PTree α)

/-- one parent step -/
def step (x y : α) : Prop := t.parent x = some y

/-- reflexive-transitive ancestor relation -/
def anc (n a : α) : Prop := Relation.ReflTransGen t.step n a

-- T-anc-refl
theorem anc_refl (n : α) : t.anc n n := Relation.ReflTransGen.refl

-- T-anc-parent
theorem anc_parent {n p : α} (h : t.parent n = some p) : t.anc n p :=
  Relation.ReflTransGen.single h

-- T-anc-trans
theorem anc_trans {n a b : α} (h₁ : t.anc n a) (h₂ : t.anc a b) : t.anc n b :=
  Relation.ReflTransGen.trans h₁ h₂

-- T-anc-step
theorem anc_step {n a p : α} (h : t.anc n a) (hp : t.parent a = some p) : t.anc n p :=
  Relation.ReflTransGen.tail h hp

-- T-anc-def (one-step unfolding)
theorem anc_def (n a : α) : t.anc n a ↔ n = a ∨ ∃ p, t.parent n = some p ∧ t.anc p a := by
  constructor
  · intro h
    rcases Relation.ReflTransGen.cases_head h with h | ⟨p, hp, hr⟩
    · exact Or.inl h
    · exact Or.inr ⟨p, hp, hr⟩
  · rintro (h | ⟨p, hp, hr⟩)
    · subst h; exact t.anc_refl n
    · exact Relation.ReflTransGen.head hp hr

-- T-parent-neq
theorem parent_ne_self (n : α) : t.parent n ≠ some n := by
  intro h
  have := t.depth_parent n n h
  omega

-- T-anc-depth (first half): an ancestor is never deeper
theorem anc_depth_le {n a : α} (h : t.anc n a) : t.depth a ≤ t.depth n := by
  induction h with
  | refl => exact le_refl _
  | tail _ hs ih =>
    have := t.depth_parent _ _ hs
    omega

-- T-anc-depth (second half): equal depth means equal node
theorem anc_depth_eq {n a : α} (h : t.anc n a) (hd : t.depth a = t.depth n) : a = n := by
  rcases Relation.ReflTransGen.cases_head h with h' | ⟨p, hp, hr⟩
  · exact h'.symm
  · have h1 := t.depth_parent _ _ hp
    have h2 := t.anc_depth_le hr
    omega

-- T-anc-linear: the ancestors of one node form a chain
theorem anc_linear {n a b : α} (ha : t.anc n a) (hb : t.anc n b) : t.anc a b ∨ t.anc b a := by
  induction ha with
  | refl => exact Or.inl hb
  | @tail x y _ hs ih =>
    rcases ih with h | h
    · rcases Relation.ReflTransGen.cases_head h with h' | ⟨p, hp, hr⟩
      · subst h'
        exact Or.inr (Relation.ReflTransGen.single hs)
      · have hpy : p = y := by
          unfold step at hp hs
          rw [hp] at hs
          exact Option.some.inj hs
        subst hpy
        exact Or.inl hr
    · exact Or.inr (Relation.ReflTransGen.tail h hs)

-- T-root-unique is a field; T-anc-root: every node reaches the root
theorem anc_root (n : α) : t.anc n t.root := by
  induction hd : t.depth n using Nat.strong_induction_on generalizing n with
  | _ d ih =>
    cases hp : t.parent n with
    | none =>
      have := t.root_unique n hp
      subst this
      exact t.anc_refl _
    | some p =>
      have h1 := t.depth_parent n p hp
      have := ih (t.depth p) (by omega) p rfl
      exact Relation.ReflTransGen.head hp this

-- depth root = 0 (T-root)
theorem depth_root_min (n : α) : t.depth t.root ≤ t.depth n := t.anc_depth_le (t.anc_root n)

-- T-child-toward: a proper descendant has a unique ancestor-or-self that is a child of d
theorem child_toward_exists {d x : α} (h : t.anc x d) (hne : x ≠ d) :
    ∃ c, t.parent c = some d ∧ t.anc x c := by
  induction h with
  | refl => exact absurd rfl hne
  | @tail b c hab hbc ih =>
    by_cases hb : x = b
    · subst hb
      exact ⟨x, hbc, t.anc_refl x⟩
    · exact ⟨b, hbc, hab⟩

end PTree

"""C15 contracts: spawn key derivation (strings)."""
from pyvc.sorts import BOOL, INT, STR

MD = "xstate_statemachine.models:"


def register(w):
    @w.contract(MD + "spawn_service_key", props=["C15"])
    def _(c):
        c.param("action_type", STR).returns(STR)
        # documented table: spawn_<key> -> <key>; spawn_blocking_<key> -> <key>; anything else unchanged
        c.ens("implies(action_type.startswith('spawn_blocking_'), 'spawn_blocking_' + result == action_type)", label="blocking-prefix-stripped")
        c.ens("implies(action_type.startswith('spawn_') and not action_type.startswith('spawn_blocking_'), 'spawn_' + result == action_type)", label="prefix-stripped")
        c.ens("implies(not action_type.startswith('spawn_'), result == action_type)", label="other-names-unchanged")

    @w.contract(MD + "is_spawn_action", props=["C15"])
    def _(c):
        c.param("action_type", STR).returns(BOOL)
        c.ens("result == action_type.startswith('spawn_')", label="spawn-prefix")

"""Specification vocabulary shared by the contracts (written from the property
statements, not from the code)."""


def register(w):
    # C01 - legal configuration ------------------------------------------------
    w.macro("has_kids", ["n"], "len(n.states) > 0")
    w.macro("legal_root", ["A"], "root in A")
    w.macro("legal_parents", ["A"],
            "forall[Node](lambda n: implies(n in A and n != root, n != None and n.parent != None and n.parent in A))")
    w.macro("legal_compound_some", ["A"],
            "forall[Node](lambda n: implies(n in A and n.type == 'compound' and has_kids(n), exists[Node](lambda c: c != None and c in A and c.parent == n)))")
    w.macro("legal_compound_one", ["A"],
            "forall[Node, Node](lambda c, d: implies(c in A and d in A and c != None and d != None and c.parent == d.parent and c.parent != None and c.parent.type == 'compound', c == d))")
    w.macro("legal_parallel", ["A"],
            "forall[Node](lambda c: implies(c != None and c.parent != None and c.parent in A and c.parent.type == 'parallel' and c.type != 'history', c in A))")
    w.macro("legal_nohistory", ["A"], "forall[Node](lambda n: implies(n in A and n != None, n.type != 'history'))")
    w.macro("legal", ["A"],
            "legal_root(A) and legal_parents(A) and legal_compound_some(A) and legal_compound_one(A) and legal_parallel(A) and legal_nohistory(A)")

    # ---- contract E (entering): local legality of one node n inside a set S, phrased like the legal_* clauses above
    w.macro("okn", ["n", "S"],
            "n.type != 'history'"
            " and implies(n.type == 'compound' and has_kids(n), exists[Node](lambda c: c != None and c in S and c.parent == n))"
            " and implies(n.type == 'compound', forall[Node, Node](lambda c, d: implies(c in S and d in S and c != None and d != None and c.parent == n and d.parent == n, c == d)))"
            " and implies(n.type == 'parallel', forall[Node](lambda c: implies(c != None and c.parent == n and c.type != 'history', c in S)))")
    # the listed states are pairwise unrelated, none is a history node, each hangs below an active state (or is the root),
    # and nothing in their subtrees is active yet: the shape of start() and of every recursive call of the default descent
    w.macro("fresh_forest", ["L", "S"],
            "forall[int, int](lambda i, j: implies(0 <= i and i < len(L) and 0 <= j and j < len(L) and i != j, not anc(L[i], L[j])))"
            " and forall[int](lambda i: implies(0 <= i and i < len(L), L[i].type != 'history' and (L[i] == root or L[i].parent in S)))"
            " and forall[int, Node](lambda i, n: implies(0 <= i and i < len(L) and anc(n, L[i]), not (n in S)))")


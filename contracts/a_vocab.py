"""Specification vocabulary shared by the contracts (written from the property
statements, not from the code)."""


def register(w):
    # C01 - legal configuration ------------------------------------------------
    w.macro("has_kids", ["n"], "len(n.states) > 0")
    w.macro("legal_root", ["A"], "root in A")
    w.macro("legal_parents", ["A"],
            "forall[Node](lambda n: implies(n in A and n != root, n != None and n.parent != None and n.parent in A))")
    w.macro("legal_compound_some", ["A"],
            "forall[Node](lambda n: implies(n in A and n.type == 'compound' and has_kids(n), exists[Node](lambda c: c != None and c in A and c.parent == n)))")
    w.macro("legal_compound_one", ["A"],
            "forall[Node, Node](lambda c, d: implies(c in A and d in A and c != None and d != None and c.parent == d.parent and c.parent != None and c.parent.type == 'compound', c == d))")
    w.macro("legal_parallel", ["A"],
            "forall[Node](lambda c: implies(c != None and c.parent != None and c.parent in A and c.parent.type == 'parallel' and c.type != 'history', c in A))")
    w.macro("legal_nohistory", ["A"], "forall[Node](lambda n: implies(n in A and n != None, n.type != 'history'))")
    w.macro("legal", ["A"],
            "legal_root(A) and legal_parents(A) and legal_compound_some(A) and legal_compound_one(A) and legal_parallel(A) and legal_nohistory(A)")

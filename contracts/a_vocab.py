"""Specification vocabulary shared by the contracts (written from the property
statements, not from the code)."""


def register(w):
    # C01 - legal configuration ------------------------------------------------
    w.macro("has_kids", ["n"], "len(n.states) > 0")
    w.macro("legal_root", ["A"], "root in A")
    w.macro("legal_parents", ["A"],
            "forall[Node](lambda n: implies(n in A and n != root, n != None and n.parent != None and n.parent in A))")
    w.macro("legal_compound_some", ["A"],
            "forall[Node](lambda n: implies(n in A and n.type == 'compound' and has_kids(n), exists[Node](lambda c: c != None and c in A and c.parent == n)))")
    w.macro("legal_compound_one", ["A"],
            "forall[Node, Node](lambda c, d: implies(c in A and d in A and c != None and d != None and c.parent == d.parent and c.parent != None and c.parent.type == 'compound', c == d))")
    w.macro("legal_parallel", ["A"],
            "forall[Node](lambda c: implies(c != None and c.parent != None and c.parent in A and c.parent.type == 'parallel' and c.type != 'history', c in A))")
    w.macro("legal_nohistory", ["A"], "forall[Node](lambda n: implies(n in A and n != None, n.type != 'history'))")
    w.macro("legal", ["A"],
            "legal_root(A) and legal_parents(A) and legal_compound_some(A) and legal_compound_one(A) and legal_parallel(A) and legal_nohistory(A)")

    # ---- contract E (entering): local legality of one node n inside a set S, phrased like the legal_* clauses above
    w.macro("okn", ["n", "S"],
            "n.type != 'history'"
            " and implies(n.type == 'compound' and has_kids(n), exists[Node](lambda c: c != None and c in S and c.parent == n))"
            " and implies(n.type == 'compound', forall[Node, Node](lambda c, d: implies(c in S and d in S and c != None and d != None and c.parent == n and d.parent == n, c == d)))"
            " and implies(n.type == 'parallel', forall[Node](lambda c: implies(c != None and c.parent == n and c.type != 'history', c in S)))")
    # the listed states are pairwise unrelated, none is a history node, each hangs below an active state (or is the root),
    # and nothing in their subtrees is active yet: the shape of start() and of every recursive call of the default descent
    w.macro("fresh_forest", ["L", "S"],
            "forall[int, int](lambda i, j: implies(0 <= i and i < len(L) and 0 <= j and j < len(L) and i != j, not anc(L[i], L[j])))"
            " and forall[int](lambda i: implies(0 <= i and i < len(L), L[i].type != 'history' and (L[i] == root or L[i].parent in S)))"
            " and forall[int, Node](lambda i, n: implies(0 <= i and i < len(L) and anc(n, L[i]), not (n in S)))")
    # the path a transition enters: a parent-child chain without history nodes, hanging below an active state, whose whole
    # subtree is still inactive
    w.macro("fresh_chain", ["L", "S"],
            "len(L) >= 1 and forall[int](lambda i: implies(0 <= i and i < len(L), L[i] != None and L[i].type != 'history'))"
            " and (L[0] == root or L[0].parent in S)"
            " and forall[int](lambda i: implies(1 <= i and i < len(L), L[i].parent == L[i - 1]), lambda i: L[i])"
            " and forall[int](lambda i: implies(0 <= i and i < len(L), L[i].depth == L[0].depth + i), lambda i: L[i])"
            " and forall[Node](lambda n: implies(anc(n, L[0]), not (n in S)))")
    # p has been entered but its explicitly listed child x not yet: p is legal as soon as x is active
    w.macro("pending", ["p", "S", "x"],
            "p.type != 'history'"
            " and implies(p.type == 'compound', forall[Node](lambda c: implies(c in S and c != None, c.parent != p)))"
            " and implies(p.type == 'parallel', forall[Node](lambda c: implies(c != None and c.parent == p and c.type != 'history' and c != x, c in S)))")


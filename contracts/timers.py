"""C08: arming and cancelling of the sync engine's `after` timers (bookkeeping)."""
from pyvc.sorts import BOOL, INT, STR, OPAQUE, ListSort
from specs.xsm import Node, Ev

SI = "xstate_statemachine.sync_interpreter:SyncInterpreter."
AE = "self._after_events"


def register(w):
    @w.contract(SI + "_after_timer", props=["C08"])
    def _(c):
        c.param("delay_sec", OPAQUE).param("event", Ev).param("owner_id", STR)
        c.mod(AE, "self._after_threads")
        c.req("event != None")
        c.no_runtime = True
        # several delays on one state (and on other states) are independent: arming one never touches another
        c.ens(f"forall[str](lambda k: implies(k in old({AE}), k in {AE} and {AE}[k] == old({AE})[k]))", label="existing-timers-untouched")
        c.ens(f"len({AE}) == len(old({AE})) + 1", label="exactly-one-timer-armed")
        c.ens(f"forall[str](lambda k: implies(k in {AE} and not (k in old({AE})), k.startswith(owner_id + '::') and not {AE}[k].is_set))",
              label="new-timer-owned-by-the-state-and-not-cancelled")

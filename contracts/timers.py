"""C08: arming and cancelling of the sync engine's `after` timers (bookkeeping)."""
from pyvc.sorts import BOOL, INT, STR, OPAQUE, ListSort, MapSort, OptSort
from specs.xsm import Node, Ev, Trans, Inv, Callable_

SI = "xstate_statemachine.sync_interpreter:SyncInterpreter."
AE = "self._after_events"


def register(w):
    @w.contract(SI + "_after_timer", props=["C08"])
    def _(c):
        c.param("delay_sec", OPAQUE).param("event", Ev).param("owner_id", STR)
        c.mod(AE, "self._after_threads")
        c.req("event != None")
        c.no_runtime = True
        # several delays on one state (and on other states) are independent: arming one never touches another
        c.ens(f"forall[str](lambda k: implies(k in old({AE}), k in {AE} and {AE}[k] == old({AE})[k]))", label="existing-timers-untouched")
        c.ens(f"len({AE}) == len(old({AE})) + 1", label="exactly-one-timer-armed")
        c.ens(f"forall[str](lambda k: implies(k in {AE} and not (k in old({AE})), k.startswith(owner_id + '::') and not {AE}[k].is_set))",
              label="new-timer-owned-by-the-state-and-not-cancelled")

    OWNED = "(k == state.id or k.startswith(state.id + '::'))"

    @w.contract(SI + "_cancel_state_tasks", props=["C08"])
    def _(c):
        c.param("state", Node)
        c.mod(AE, "self._after_threads", "Flag.is_set")
        c.req("state != None")
        c.no_runtime = True
        c.ens(f"forall[str](lambda k: (k in {AE}) == (k in old({AE}) and not {OWNED}))", label="every-timer-of-the-state-is-removed-and-no-other")
        c.ens(f"forall[str](lambda k: implies(k in {AE}, {AE}[k] == old({AE})[k]))", label="remaining-timers-keep-their-flag")
        c.ens(f"forall[str](lambda k: implies(k in old({AE}) and {OWNED}, old({AE})[k].is_set))", label="every-removed-timer-is-cancelled")
        c.ens(f"forall[Flag](lambda f: implies(old(f.is_set), f.is_set))", label="no-flag-is-cleared")
        c.ens(f"forall[Flag](lambda f: implies(f.is_set and not old(f.is_set), exists[str](lambda k: k in old({AE}) and {OWNED} and old({AE})[k] == f)))",
              label="only-flags-of-this-state's-timers-are-set")
        c.loop(0, inv=[
            "forall[int, int](lambda a, b: implies(0 <= a and a < b and b < len(to_cancel), to_cancel[a] != to_cancel[b]))",
            f"forall[int](lambda j: implies(0 <= j and j < len(to_cancel), to_cancel[j] in old({AE})))",
            f"forall[str](lambda k: (k in {AE}) == (k in old({AE}) and not exists[int](lambda j: 0 <= j and j < _i and to_cancel[j] == k)))",
            f"forall[str](lambda k: implies(k in {AE}, {AE}[k] == old({AE})[k]))",
            f"forall[int](lambda j: implies(0 <= j and j < _i, old({AE})[to_cancel[j]].is_set))",
            "forall[Flag](lambda f: implies(old(f.is_set), f.is_set))",
            f"forall[Flag](lambda f: implies(f.is_set and not old(f.is_set), exists[int](lambda j: 0 <= j and j < _i and old({AE})[to_cancel[j]] == f)))",
        ])

    BI = "xstate_statemachine.base_interpreter:BaseInterpreter."
    Q, ACC = "self._event_queue", "self.g_accepted"
    APP = f"appended_only(old({Q}), old({ACC}), {Q}, {ACC})"

    @w.contract(BI + "_resolve_delay", props=["C08"])
    def _(c):
        c.trusted = ("assumed total and effect-free (A-user): a number, a named delay from MachineLogic.delays or a callable of {context, event} "
                     "is resolved to milliseconds, None when it cannot be; bounded.c08 scenarios `named` / `computed`")
        c.no_runtime = True
        c.param("spec", OPAQUE).param("event", OPAQUE).returns(OptSort(OPAQUE))
        c.ens("(result != None) == rdelay_ok(spec, self.context)")

    @w.contract(SI + "_invoke_service", also=["xstate_statemachine.interpreter:Interpreter._invoke_service"], props=["C09"])
    def _(c):
        c.trusted = ("assumed: starts one service for the invocation (sync: runs it and sends done.invoke / error.platform through send(), "
                     "append-only while processing; async: creates a task); never touches the after-timer table; bounded.c09")
        c.no_runtime = True
        c.param("invocation", Inv).param("service", OPAQUE).param("owner_id", STR)
        c.mod("self._actors", "self._scheduled_sends", "self._pending_send_cancels", "self._raise_depth", Q, ACC, "self.context")
        c.ens(APP, label="ghost:queue-append-only")
        c.may_raise("Exception", ensures=["ghost:" + APP])

    @w.contract(BI + "_schedule_state_tasks", props=["C08", "C09"])
    def _(c):
        c.no_runtime = True
        c.param("state", Node)
        c.mod(AE, "self._after_threads", "self._actors", "self._scheduled_sends", "self._pending_send_cancels", "self._raise_depth", Q, ACC, "self.context")
        c.req("state != None")
        # several delays on one state (and those of other states) are independent: arming never touches an existing timer
        c.ens(f"forall[str](lambda k: implies(k in old({AE}), k in {AE} and {AE}[k] == old({AE})[k]))", label="existing-timers-untouched")
        c.ens(f"forall[str](lambda k: implies(k in {AE} and not (k in old({AE})), k.startswith(state.id + '::') and not {AE}[k].is_set))",
              label="new-timers-are-owned-by-the-state-and-armed")
        # one timer per after-transition whose delay resolves, none otherwise; one service start per invocation
        c.ghost("narmed", INT, init="0")
        c.ghost("armed", MapSort(Trans, BOOL))
        c.after("self._after_timer(delay_sec, after_event, owner_id=state.id)", "narmed = narmed + 1", "armed = store(armed, t_def, True)")
        c.ens(f"len({AE}) == len(old({AE})) + final_narmed", label="ghost:one-table-entry-per-armed-timer")
        c.ens("forall[Opaque, int](lambda k, i: implies(k in state.after and 0 <= i and i < len(state.after[k]) and rdelay_ok(k, old(self.context)), final_armed[state.after[k][i]]))",
              label="ghost:every-after-transition-with-a-resolvable-delay-is-armed")
        c.ghost("nstarted", INT, init="0")
        c.after("self._invoke_service(invocation, service_callable, owner_id=state.id)", "nstarted = nstarted + 1")
        c.ens("final_nstarted == len(state.invoke)", label="ghost:every-invocation-is-started-once")
        c.ens(APP, label="ghost:queue-append-only")
        UNT = f"forall[str](lambda k: implies(k in old({AE}), k in {AE} and {AE}[k] == old({AE})[k]))"
        OWN = f"forall[str](lambda k: implies(k in {AE} and not (k in old({AE})), k.startswith(state.id + '::') and not {AE}[k].is_set))"
        CNT = f"len({AE}) == len(old({AE})) + narmed"
        KS = "keys(state.after)"
        DONEK = f"forall[int, int](lambda j, i: implies(0 <= j and j < _i0 and 0 <= i and i < len(state.after[{KS}[j]]) and rdelay_ok({KS}[j], self.context), armed[state.after[{KS}[j]][i]]))"
        c.loop(0, inv=[UNT, OWN, CNT, DONEK.replace("_i0", "_i"), APP, "nstarted == 0", "same(self.context, old(self.context))"])
        c.loop(1, inv=[UNT, OWN, CNT, DONEK, APP, "nstarted == 0", "same(self.context, old(self.context))", "resolved_ms != None",
                       "forall[int](lambda i: implies(0 <= i and i < _i, armed[transitions[i]]))"])
        ALLK = f"forall[int, int](lambda j, i: implies(0 <= j and j < len(state.after) and 0 <= i and i < len(state.after[{KS}[j]]) and rdelay_ok({KS}[j], old(self.context)), armed[state.after[{KS}[j]][i]]))"
        c.loop(2, inv=[UNT, OWN, CNT, ALLK, APP, "nstarted == _i"])
        c.may_raise("ImplementationMissingError", ensures=["ghost:" + APP,
                    ("existing-timers-untouched", f"forall[str](lambda k: implies(k in old({AE}), k in {AE} and {AE}[k] == old({AE})[k]))")])
        c.may_raise("Exception", ensures=["ghost:" + APP,
                    ("existing-timers-untouched", f"forall[str](lambda k: implies(k in old({AE}), k in {AE} and {AE}[k] == old({AE})[k]))")])

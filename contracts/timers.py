"""C08: arming and cancelling of the sync engine's `after` timers (bookkeeping)."""
from pyvc.sorts import BOOL, INT, STR, OPAQUE, ListSort
from specs.xsm import Node, Ev

SI = "xstate_statemachine.sync_interpreter:SyncInterpreter."
AE = "self._after_events"


def register(w):
    @w.contract(SI + "_after_timer", props=["C08"])
    def _(c):
        c.param("delay_sec", OPAQUE).param("event", Ev).param("owner_id", STR)
        c.mod(AE, "self._after_threads")
        c.req("event != None")
        c.no_runtime = True
        # several delays on one state (and on other states) are independent: arming one never touches another
        c.ens(f"forall[str](lambda k: implies(k in old({AE}), k in {AE} and {AE}[k] == old({AE})[k]))", label="existing-timers-untouched")
        c.ens(f"len({AE}) == len(old({AE})) + 1", label="exactly-one-timer-armed")
        c.ens(f"forall[str](lambda k: implies(k in {AE} and not (k in old({AE})), k.startswith(owner_id + '::') and not {AE}[k].is_set))",
              label="new-timer-owned-by-the-state-and-not-cancelled")

    OWNED = "(k == state.id or k.startswith(state.id + '::'))"

    @w.contract(SI + "_cancel_state_tasks", props=["C08"])
    def _(c):
        c.param("state", Node)
        c.mod(AE, "self._after_threads", "Flag.is_set")
        c.req("state != None")
        c.no_runtime = True
        c.ens(f"forall[str](lambda k: (k in {AE}) == (k in old({AE}) and not {OWNED}))", label="every-timer-of-the-state-is-removed-and-no-other")
        c.ens(f"forall[str](lambda k: implies(k in {AE}, {AE}[k] == old({AE})[k]))", label="remaining-timers-keep-their-flag")
        c.ens(f"forall[str](lambda k: implies(k in old({AE}) and {OWNED}, old({AE})[k].is_set))", label="every-removed-timer-is-cancelled")
        c.ens(f"forall[Flag](lambda f: implies(old(f.is_set), f.is_set))", label="no-flag-is-cleared")
        c.ens(f"forall[Flag](lambda f: implies(f.is_set and not old(f.is_set), exists[str](lambda k: k in old({AE}) and {OWNED} and old({AE})[k] == f)))",
              label="only-flags-of-this-state's-timers-are-set")
        c.loop(0, inv=[
            "forall[int, int](lambda a, b: implies(0 <= a and a < b and b < len(to_cancel), to_cancel[a] != to_cancel[b]))",
            f"forall[int](lambda j: implies(0 <= j and j < len(to_cancel), to_cancel[j] in old({AE})))",
            f"forall[str](lambda k: (k in {AE}) == (k in old({AE}) and not exists[int](lambda j: 0 <= j and j < _i and to_cancel[j] == k)))",
            f"forall[str](lambda k: implies(k in {AE}, {AE}[k] == old({AE})[k]))",
            f"forall[int](lambda j: implies(0 <= j and j < _i, old({AE})[to_cancel[j]].is_set))",
            "forall[Flag](lambda f: implies(old(f.is_set), f.is_set))",
            f"forall[Flag](lambda f: implies(f.is_set and not old(f.is_set), exists[int](lambda j: 0 <= j and j < _i and old({AE})[to_cancel[j]] == f)))",
        ])

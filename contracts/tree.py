"""Contracts for the tree helpers of BaseInterpreter (C01, C03, C16)."""
from pyvc.sorts import BOOL, INT, STR, ListSort, SetSort
from specs.xsm import Node, Trans

BI = "xstate_statemachine.base_interpreter:BaseInterpreter."
SN = "xstate_statemachine.models:StateNode."


def register(w):
    register_resolver(w)

    @w.contract(BI + "_get_ancestors", props=["C01", "C03"])
    def _(c):
        c.param("node", Node).returns(SetSort(Node))
        c.req("node != None")
        c.ens("forall[Node](lambda a: (a in result) == anc(node, a))", label="result-is-ancestor-set")
        c.loop(0, inv=[
            "current == None or anc(node, current)",
            "forall[Node](lambda a: (a in ancestors) == (anc(node, a) and not anc(current, a)))",
        ], decreases="ite(current != None, current.depth + 1, 0)")

    @w.contract(BI + "_get_path_to_state", also=[SN + "_get_path_to_state"], props=["C01", "C03"])
    def _(c):
        c.param("to_state", Node).param("stop_at", Node).returns(ListSort(Node))
        c.defaults = {"stop_at": "None"}
        c.req("to_state != None")
        # chain: parent->child order, ends at the target, starts just below stop_at (or at the root)
        c.ens("len(result) >= 1 or to_state == stop_at", label="nonempty-unless-target-is-stop")
        c.ens("implies(len(result) >= 1, result[len(result) - 1] == to_state)", label="ends-at-target")
        # multi-pattern: instantiating this clause must not create the next index term (that is a matching loop in every caller)
        c.ens("forall[int](lambda i: implies(0 <= i and i < len(result) - 1, result[i + 1].parent == result[i]), lambda i: (result[i], result[i + 1]))", label="parent-child-chain")
        c.ens("forall[int](lambda i: implies(0 <= i and i < len(result), result[i] != None and anc(to_state, result[i]) and result[i] != stop_at))", label="members-are-ancestors-below-stop")
        c.ens("implies(len(result) >= 1, result[0].parent == stop_at or result[0].parent == None)", label="starts-below-stop-or-at-root")
        c.ens("implies(len(result) >= 1 and stop_at != None and anc(to_state, stop_at), result[0].parent == stop_at)", label="starts-just-below-a-stop-that-is-an-ancestor")
        c.ens("forall[int](lambda i: implies(0 <= i and i < len(result), result[i].depth == to_state.depth - (len(result) - 1 - i)))", label="depths-consecutive")
        c.loop(0, inv=[
            "len(path) >= 0",
            "current == None or anc(to_state, current)",
            "implies(stop_at != None and anc(to_state, stop_at), current != None and anc(current, stop_at))",
            "implies(len(path) == 0, current == to_state)",
            "implies(len(path) >= 1, path[0] == to_state and path[len(path) - 1].parent == current)",
            "forall[int](lambda i: implies(0 <= i and i < len(path) - 1, path[i].parent == path[i + 1]))",
            "forall[int](lambda i: implies(0 <= i and i < len(path), path[i] != None and anc(to_state, path[i]) and path[i] != stop_at and path[i].depth == to_state.depth - i))",
        ], decreases="ite(current != None, current.depth + 1, 0)")


    @w.contract(BI + "_is_descendant", also=[SN + "_is_descendant"], props=["C01", "C03", "C10"])
    def _(c):
        c.param("node", Node).param("ancestor", Node).returns(BOOL)
        c.req("node != None")
        c.pure = True
        c.returns_expr = "ancestor == None or anc(node, ancestor)"
        c.ens("result == (ancestor == None or anc(node, ancestor))", label="descendant-iff-ancestor-relation")


    @w.contract(BI + "_find_transition_domain", props=["C01", "C03"])
    def _(c):
        c.param("transition", Trans).param("target_state", Node).returns(Node)
        c.req("transition != None and transition.source != None and target_state != None")
        S, T = "transition.source", "target_state"
        c.ens("result != None", label="domain-exists")
        c.ens(f"anc({S}, result) and anc({T}, result)", label="domain-contains-source-and-target")
        c.ens(f"implies({T} != root, result != {T})", label="domain-is-proper-ancestor-of-target")
        c.ens(f"implies({T} == {S}, result == ite({S}.parent != None, {S}.parent, root))", label="self-transition-domain-is-parent")
        c.ens(f"implies({T} != {S} and anc({S}, {T}), result == ite({T}.parent != None, {T}.parent, root))", label="target-is-ancestor-domain-is-its-parent")
        c.ens(f"implies(not anc({S}, {T}), forall[Node](lambda k: implies(anc({S}, k) and anc({T}, k), anc(result, k))))", label="otherwise-least-common-ancestor")
        # proof hints: the set algebra in terms of `anc` (so that no array extensionality reasoning is needed later)
        c.after("common_ancestors = source_ancestors & target_ancestors",
                f"assert forall[Node](lambda k: implies(anc({S}, k) and anc({T}, k), k in common_ancestors), lambda k: (anc({S}, k), anc({T}, k)))",
                "assert root in common_ancestors")


    A = "self._active_state_nodes"

    @w.contract(BI + "_compute_states_to_exit", props=["C01", "C03", "C16"])
    def _(c):
        c.param("domain", Node).param("target_state", Node).returns(SetSort(Node))
        c.req("target_state != None", f"forall[Node](lambda n: implies(n in {A}, n != None))")
        BELOW = f"(n in {A} and n != domain and (domain == None or anc(n, domain)))"
        REGION = "(domain != None and domain.type == 'parallel' and anc(target_state, domain) and target_state != domain)"
        c.ens(f"forall[Node](lambda n: implies(n in result, {BELOW}))", label="only-active-proper-descendants-of-the-domain")
        c.ens(f"implies(not {REGION}, forall[Node](lambda n: implies({BELOW}, n in result)))", label="whole-subtree-unless-parallel-domain")
        c.ens(f"implies({REGION}, forall[Node](lambda n: (n in result) == (n in {A} and anc(n, child_toward(domain, target_state)))))", label="parallel-domain-only-the-target-region")
        c.loop(0, inv=[
            "branch == None or anc(target_state, branch)",
            f"implies({REGION}, branch != None and anc(branch, domain) and branch != domain)",
        ], decreases="ite(branch != None, branch.depth + 1, 0)")


def register_resolver(w):
    RS = "xstate_statemachine.resolver:"

    @w.contract(RS + "_find_descendant", props=["C18"])
    def _(c):
        # the path walk every target spelling ends in (absolute "#m.a.b", relative ".b", plain "a.b")
        c.param("start_node", Node).param("path", ListSort(STR)).returns(Node)
        c.req("start_node != None")
        c.ens("result != None and anc(result, start_node)", label="result-is-a-descendant-or-the-start")
        c.ens("result.depth == start_node.depth + len(path)", label="one-level-per-path-segment")
        c.ens("implies(len(path) == 0, result == start_node)", label="empty-path-is-the-start")
        c.ens("implies(len(path) == 1, path[0] in start_node.states and result == start_node.states[path[0]])", label="single-segment-is-the-child-of-that-key")
        c.may_raise("StateNotFoundError")
        c.loop(0, inv=["current != None and anc(current, start_node)", "current.depth == start_node.depth + _i",
                       "implies(_i == 0, current == start_node)",
                       "implies(_i == 1 and len(path) >= 1, path[0] in start_node.states and current == start_node.states[path[0]])"])

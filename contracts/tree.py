"""Contracts for the tree helpers of BaseInterpreter (C01, C03, C16)."""
from pyvc.sorts import BOOL, INT, STR, ListSort, SetSort
from specs.xsm import Node, Trans

BI = "xstate_statemachine.base_interpreter:BaseInterpreter."
SN = "xstate_statemachine.models:StateNode."


def register(w):
    @w.contract(BI + "_get_ancestors", props=["C01", "C03"])
    def _(c):
        c.param("node", Node).returns(SetSort(Node))
        c.req("node != None")
        c.ens("forall[Node](lambda a: (a in result) == anc(node, a))", label="result-is-ancestor-set")
        c.loop(0, inv=[
            "current == None or anc(node, current)",
            "forall[Node](lambda a: (a in ancestors) == (anc(node, a) and not anc(current, a)))",
        ], decreases="ite(current != None, current.depth + 1, 0)")

    @w.contract(BI + "_get_path_to_state", also=[SN + "_get_path_to_state"], props=["C01", "C03"])
    def _(c):
        c.param("to_state", Node).param("stop_at", Node).returns(ListSort(Node))
        c.defaults = {"stop_at": "None"}
        c.req("to_state != None")
        # chain: parent->child order, ends at the target, starts just below stop_at (or at the root)
        c.ens("len(result) >= 1 or to_state == stop_at", label="nonempty-unless-target-is-stop")
        c.ens("implies(len(result) >= 1, result[len(result) - 1] == to_state)", label="ends-at-target")
        c.ens("forall[int](lambda i: implies(0 <= i and i < len(result) - 1, result[i + 1].parent == result[i]))", label="parent-child-chain")
        c.ens("forall[int](lambda i: implies(0 <= i and i < len(result), result[i] != None and anc(to_state, result[i]) and result[i] != stop_at))", label="members-are-ancestors-below-stop")
        c.ens("implies(len(result) >= 1, result[0].parent == stop_at or result[0].parent == None)", label="starts-below-stop-or-at-root")
        c.ens("forall[int](lambda i: implies(0 <= i and i < len(result), result[i].depth == to_state.depth - (len(result) - 1 - i)))", label="depths-consecutive")
        c.loop(0, inv=[
            "len(path) >= 0",
            "current == None or anc(to_state, current)",
            "implies(len(path) == 0, current == to_state)",
            "implies(len(path) >= 1, path[0] == to_state and path[len(path) - 1].parent == current)",
            "forall[int](lambda i: implies(0 <= i and i < len(path) - 1, path[i].parent == path[i + 1]))",
            "forall[int](lambda i: implies(0 <= i and i < len(path), path[i] != None and anc(to_state, path[i]) and path[i] != stop_at and path[i].depth == to_state.depth - i))",
        ], decreases="ite(current != None, current.depth + 1, 0)")

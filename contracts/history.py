"""C11 / C16: recording the history of exited states (BaseInterpreter._record_history)."""
from pyvc.sorts import BOOL, INT, STR, ListSort, SetSort
from specs.xsm import Node

BI = "xstate_statemachine.base_interpreter:BaseInterpreter."
A = "self._active_state_nodes"
H = "self._history"


def register(w):
    # s owns a history pseudo-state
    w.macro("has_history_child", ["s"], "exists[int](lambda hi: 0 <= hi and hi < len(s.states) and s.states[keys(s.states)[hi]].type == 'history')")
    # s is one of the exited states or an ancestor of one
    w.macro("on_exit_path", ["xs", "s"], "exists[int](lambda xj: 0 <= xj and xj < len(xs) and anc(xs[xj], s))")

    @w.contract(BI + "_record_history", props=["C11", "C16"])
    def _(c):
        # replaces the assumed frame in contracts/config.py
        c.param("states_to_exit", ListSort(Node))
        c.mod(H)
        c.req("forall[int](lambda i: implies(0 <= i and i < len(states_to_exit), states_to_exit[i] != None))")
        c.req(f"forall[Node](lambda n: implies(n in {A}, n != None))")
        HWF = f"forall[str, int](lambda k, i: implies(k in {H} and 0 <= i and i < len({H}[k]), {H}[k][i] != None))"
        c.req(HWF)
        c.ens(HWF, label="history-holds-states")
        REC = f"(s != None and on_exit_path(states_to_exit, s) and has_history_child(s) and exists[Node](lambda m: m in {A} and m != s and anc(m, s)))"
        c.ens(f"forall[Node](lambda s: implies({REC}, s.id in {H} and forall[Node](lambda n: (n in {H}[s.id]) == (n in {A} and n != s and anc(n, s)))))",
              label="records-exactly-the-active-proper-descendants")
        c.ens(f"forall[Node](lambda s: implies({REC}, forall[int, int](lambda i, j: implies(0 <= i and i < j and j < len({H}[s.id]), "
              f"{H}[s.id][i].depth < {H}[s.id][j].depth or ({H}[s.id][i].depth == {H}[s.id][j].depth and ({H}[s.id][i].id < {H}[s.id][j].id or {H}[s.id][i].id == {H}[s.id][j].id))))))",
              label="recorded-in-depth-then-id-order")
        c.ens(f"forall[str](lambda k: implies(not exists[Node](lambda s: {REC} and s.id == k), (k in {H}) == (k in old({H})) and implies(k in {H}, seq_eq({H}[k], old({H})[k]))))",
              label="other-history-entries-untouched")

        CANDS = "forall[Node](lambda a: (a in candidates) == on_exit_path(states_to_exit, a))"
        RECP = f"(has_history_child(s) and exists[Node](lambda m: m in {A} and m != s and anc(m, s)))"
        DONE = "exists[int](lambda dj: 0 <= dj and dj < _i and _seq[dj] == s)"
        # after the last loop: every candidate has been visited (set enumeration), and the candidates are the exit path
        c.after("for state in candidates",
                "assert forall[Node](lambda s: implies(s in candidates, exists[int](lambda dj: 0 <= dj and dj < _n2 and _seq2[dj] == s)))",
                "assert forall[int, Node](lambda xj, s: implies(0 <= xj and xj < len(states_to_exit) and anc(states_to_exit[xj], s), s in candidates), lambda xj, s: anc(states_to_exit[xj], s))")
        c.after("remembered = sorted(...",
                f"assert forall[int](lambda i: implies(0 <= i and i < len(remembered), remembered[i] in {A} and remembered[i] != state and anc(remembered[i], state)))",
                f"assert implies(len(remembered) > 0, remembered[0] in {A} and remembered[0] != state and anc(remembered[0], state))",
                f"assert forall[Node](lambda n: implies(n in remembered, n in {A} and n != state and anc(n, state)))",
                f"assert forall[Node](lambda n: implies(n in {A} and n != state and anc(n, state), n in remembered))")
        c.after("for node in exiting",
                "assert forall[int](lambda i: implies(0 <= i and i < len(states_to_exit), exists[int](lambda j: 0 <= j and j < _n0 and _seq0[j] == states_to_exit[i])))",
                "assert forall[int](lambda j: implies(0 <= j and j < _n0, exists[int](lambda i: 0 <= i and i < len(states_to_exit) and states_to_exit[i] == _seq0[j])))",
                "assert forall[Node](lambda a: implies(a in candidates, on_exit_path(states_to_exit, a)))",
                "assert forall[Node](lambda a: implies(on_exit_path(states_to_exit, a), a in candidates))")
        c.loop(0, inv=[
            "forall[Node](lambda a: (a in candidates) == exists[int](lambda j: 0 <= j and j < _i and anc(_seq[j], a)))",
        ])
        c.loop(1, inv=[
            "current == None or anc(node, current)",
            "forall[Node](lambda a: (a in candidates) == (exists[int](lambda j: 0 <= j and j < _i0 and anc(_seq0[j], a)) or (anc(node, a) and not anc(current, a))))",
        ], decreases="ite(current != None, current.depth + 1, 0)")
        c.loop(2, inv=[
            CANDS, HWF,
            f"forall[Node](lambda s: implies({DONE} and {RECP}, s.id in {H} and forall[Node](lambda n: (n in {H}[s.id]) == (n in {A} and n != s and anc(n, s)))))",
            f"forall[Node](lambda s: implies({DONE} and {RECP}, forall[int, int](lambda i, j: implies(0 <= i and i < j and j < len({H}[s.id]), "
            f"{H}[s.id][i].depth < {H}[s.id][j].depth or ({H}[s.id][i].depth == {H}[s.id][j].depth and ({H}[s.id][i].id < {H}[s.id][j].id or {H}[s.id][i].id == {H}[s.id][j].id))))))",
            f"forall[str](lambda k: implies(not exists[Node](lambda s: {DONE} and {RECP} and s.id == k), (k in {H}) == (k in old({H})) and implies(k in {H}, seq_eq({H}[k], old({H})[k]))))",
        ])

    # ---- restoring: which states a history pseudo-state stands for -------------------------------------------------
    @w.contract(BI + "_resolve_state_by_target", props=["C11"])
    def _(c):
        c.trusted = "assumed total and effect-free (string resolution of a target relative to a node: resolver.py, bounded.c09); None when unresolvable"
        c.no_runtime = True
        c.param("target", STR).param("reference", Node).returns(Node)

    @w.contract(BI + "_resolve_history_target", props=["C11"])
    def _(c):
        c.param("history_node", Node).returns(ListSort(Node))
        c.req("history_node != None")
        c.req(f"forall[str, int](lambda k, i: implies(k in {H} and 0 <= i and i < len({H}[k]), {H}[k][i] != None))")
        P = "history_node.parent"
        REC = f"({P} != None and {P}.id in {H} and len({H}[{P}.id]) > 0)"
        R = f"{H}[{P}.id]"
        LEAF = "(n.type == 'atomic' or n.type == 'final' or len(n.states) == 0)"
        c.ens(f"implies({P} == None, len(result) == 0)", label="root-history-node-restores-nothing")
        c.ens("forall[int](lambda i: implies(0 <= i and i < len(result), result[i] != None))", label="result-holds-states")
        # deep: exactly the recorded leaves (in recorded order); a record without any leaf is restored as recorded
        c.ens(f"implies({REC} and history_node.history == 'deep' and exists[Node](lambda n: n in {R} and {LEAF}), "
              f"forall[Node](lambda n: (n in result) == (n in {R} and {LEAF})))", label="deep-history-restores-exactly-the-recorded-leaves")
        # shallow: exactly the recorded direct children of the parent
        c.ens(f"implies({REC} and history_node.history != 'deep' and exists[Node](lambda n: n in {R} and n.parent == {P}), "
              f"forall[Node](lambda n: (n in result) == (n in {R} and n.parent == {P})))", label="shallow-history-restores-exactly-the-recorded-children")
        c.ens(f"implies({REC}, forall[Node](lambda n: implies(n in result, n in {R})))", label="restores-only-recorded-states")
        # never exited: default target, else the parent's normal entry
        NODEF = "(history_node.target_str == None or history_node.target_str == '')"
        c.ens(f"implies({P} != None and not {REC} and {NODEF} and {P}.type != 'parallel' and {P}.initial != None and {P}.initial != '' and {P}.initial in {P}.states, "
              f"len(result) == 1 and result[0] == {P}.states[{P}.initial])", label="unvisited-history-without-default-uses-the-initial-child")
        c.label_props = {"unvisited-history-of-a-parallel-parent-enters-every-region": ["C11"]}
        c.ens(f"implies({P} != None and not {REC} and {NODEF} and {P}.type == 'parallel', "
              f"forall[str](lambda k: implies(k in {P}.states and {P}.states[k].type != 'history', {P}.states[k] in result)))",
              label="unvisited-history-of-a-parallel-parent-enters-every-region")

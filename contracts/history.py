"""C11 / C16: recording the history of exited states (BaseInterpreter._record_history)."""
from pyvc.sorts import BOOL, INT, STR, ListSort, SetSort
from specs.xsm import Node

BI = "xstate_statemachine.base_interpreter:BaseInterpreter."
A = "self._active_state_nodes"
H = "self._history"


def register(w):
    # s owns a history pseudo-state
    w.macro("has_history_child", ["s"], "exists[int](lambda hi: 0 <= hi and hi < len(s.states) and s.states[keys(s.states)[hi]].type == 'history')")
    # s is one of the exited states or an ancestor of one
    w.macro("on_exit_path", ["xs", "s"], "exists[int](lambda xj: 0 <= xj and xj < len(xs) and anc(xs[xj], s))")

    @w.contract(BI + "_record_history", props=["C11", "C16"])
    def _(c):
        # replaces the assumed frame in contracts/config.py
        c.param("states_to_exit", ListSort(Node))
        c.mod(H)
        c.req("forall[int](lambda i: implies(0 <= i and i < len(states_to_exit), states_to_exit[i] != None))")
        c.req(f"forall[Node](lambda n: implies(n in {A}, n != None))")
        REC = f"(s != None and on_exit_path(states_to_exit, s) and has_history_child(s) and exists[Node](lambda m: m in {A} and m != s and anc(m, s)))"
        c.ens(f"forall[Node](lambda s: implies({REC}, s.id in {H} and forall[Node](lambda n: (n in {H}[s.id]) == (n in {A} and n != s and anc(n, s)))))",
              label="records-exactly-the-active-proper-descendants")
        c.ens(f"forall[Node](lambda s: implies({REC}, forall[int, int](lambda i, j: implies(0 <= i and i < j and j < len({H}[s.id]), "
              f"{H}[s.id][i].depth < {H}[s.id][j].depth or ({H}[s.id][i].depth == {H}[s.id][j].depth and ({H}[s.id][i].id < {H}[s.id][j].id or {H}[s.id][i].id == {H}[s.id][j].id))))))",
              label="recorded-in-depth-then-id-order")
        c.ens(f"forall[str](lambda k: implies(not exists[Node](lambda s: {REC} and s.id == k), (k in {H}) == (k in old({H})) and implies(k in {H}, seq_eq({H}[k], old({H})[k]))))",
              label="other-history-entries-untouched")

        CANDS = "forall[Node](lambda a: (a in candidates) == on_exit_path(states_to_exit, a))"
        RECP = f"(has_history_child(s) and exists[Node](lambda m: m in {A} and m != s and anc(m, s)))"
        DONE = "exists[int](lambda dj: 0 <= dj and dj < _i and _seq[dj] == s)"
        # after the last loop: every candidate has been visited (set enumeration), and the candidates are the exit path
        c.after("for state in candidates",
                "assert forall[Node](lambda s: implies(s in candidates, exists[int](lambda dj: 0 <= dj and dj < _n2 and _seq2[dj] == s)))",
                "assert forall[int, Node](lambda xj, s: implies(0 <= xj and xj < len(states_to_exit) and anc(states_to_exit[xj], s), s in candidates), lambda xj, s: anc(states_to_exit[xj], s))")
        c.after("remembered = sorted(...",
                f"assert forall[int](lambda i: implies(0 <= i and i < len(remembered), remembered[i] in {A} and remembered[i] != state and anc(remembered[i], state)))",
                f"assert implies(len(remembered) > 0, remembered[0] in {A} and remembered[0] != state and anc(remembered[0], state))",
                f"assert forall[Node](lambda n: implies(n in remembered, n in {A} and n != state and anc(n, state)))",
                f"assert forall[Node](lambda n: implies(n in {A} and n != state and anc(n, state), n in remembered))")
        c.after("for node in exiting",
                "assert forall[int](lambda i: implies(0 <= i and i < len(states_to_exit), exists[int](lambda j: 0 <= j and j < _n0 and _seq0[j] == states_to_exit[i])))",
                "assert forall[int](lambda j: implies(0 <= j and j < _n0, exists[int](lambda i: 0 <= i and i < len(states_to_exit) and states_to_exit[i] == _seq0[j])))",
                "assert forall[Node](lambda a: implies(a in candidates, on_exit_path(states_to_exit, a)))",
                "assert forall[Node](lambda a: implies(on_exit_path(states_to_exit, a), a in candidates))")
        c.loop(0, inv=[
            "forall[Node](lambda a: (a in candidates) == exists[int](lambda j: 0 <= j and j < _i and anc(_seq[j], a)))",
        ])
        c.loop(1, inv=[
            "current == None or anc(node, current)",
            "forall[Node](lambda a: (a in candidates) == (exists[int](lambda j: 0 <= j and j < _i0 and anc(_seq0[j], a)) or (anc(node, a) and not anc(current, a))))",
        ], decreases="ite(current != None, current.depth + 1, 0)")
        c.loop(2, inv=[
            CANDS,
            f"forall[Node](lambda s: implies({DONE} and {RECP}, s.id in {H} and forall[Node](lambda n: (n in {H}[s.id]) == (n in {A} and n != s and anc(n, s)))))",
            f"forall[Node](lambda s: implies({DONE} and {RECP}, forall[int, int](lambda i, j: implies(0 <= i and i < j and j < len({H}[s.id]), "
            f"{H}[s.id][i].depth < {H}[s.id][j].depth or ({H}[s.id][i].depth == {H}[s.id][j].depth and ({H}[s.id][i].id < {H}[s.id][j].id or {H}[s.id][i].id == {H}[s.id][j].id))))))",
            f"forall[str](lambda k: implies(not exists[Node](lambda s: {DONE} and {RECP} and s.id == k), (k in {H}) == (k in old({H})) and implies(k in {H}, seq_eq({H}[k], old({H})[k]))))",
        ])

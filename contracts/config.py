"""Contracts on the functions that change or inspect the active configuration
(C01, C03, C10, C11).  Contracts marked `bounded_only` are evaluated at run time
around the real functions (layer B) and are NOT counted as proved until the
flag is removed."""
from pyvc.sorts import BOOL, INT, STR, ListSort, SetSort, OptSort, MapSort
from specs.xsm import Node, Trans, Ev, Act, Callable_

BI = "xstate_statemachine.base_interpreter:BaseInterpreter."
SI = "xstate_statemachine.sync_interpreter:SyncInterpreter."
A = "self._active_state_nodes"
# bookkeeping of timers / delayed sends / child actors: written whenever states are exited or entered or actions run
TASKS = ["self._after_events", "self._after_threads", "self._pending_send_cancels", "self._scheduled_sends", "self._actors",
         "self._raise_depth"]     # (_raise_depth: the asyncio engine's count of chained self-raised events, bumped by a `raise` action)


def register(w):
    ANN_X = "forall[Node](lambda n: implies(n in self._active_state_nodes, n != None))"
    HWF_X = "forall[str, int](lambda k, i: implies(k in self._history and 0 <= i and i < len(self._history[k]), self._history[k][i] != None))"
    STATE_ALL = [A, "self._history", "self.context", "self.status", "self.output", "self.error", "self._action_depth",
                 "self._event_queue", "self.g_accepted", *TASKS, "Flag.is_set", "Trans.target_str"]
    Q0, ACC0 = "self._event_queue", "self.g_accepted"
    APP0 = f"appended_only(old({Q0}), old({ACC0}), {Q0}, {ACC0})"

    @w.contract(BI + "_resolve_target_state_node", props=["C07"])
    def _(c):
        c.trusted = "assumed: resolves a transition's target string to a state of the machine or None (string search over the tree; bounded: C01/C18 drivers); may normalise transition.target_str"
        c.no_runtime = True
        c.param("transition", Trans).returns(Node)
        c.mod("Trans.target_str")
        c.may_raise("Exception")

    # ---- the asyncio transition step: same transaction as the sync one, in one function (C07 atomicity, C05) ----
    @w.contract(BI + "_execute_transition", props=["C01", "C03", "C07", "C05"])
    def _(c):
        c.param("transition", Trans).param("event", Ev)
        c.mod(*STATE_ALL)
        c.req("transition != None and transition.source != None and event != None")
        c.req(f"forall[Node](lambda n: implies(n in {A}, n != None))")
        c.req(HWF_X)
        c.req("ghost:self._is_processing")
        c.ens(f"implies(legal(old({A})), legal({A}))", label="rt:legal-after-transition")
        c.ens(f"implies(old(transition.target_str) == None or old(transition.target_str) == '', set_eq({A}, old({A})))", label="targetless-transition-keeps-the-configuration")
        c.ens(ANN_X, label="configuration-holds-states")
        c.ens(HWF_X, label="history-holds-states")
        c.ens(APP0, label="ghost:queue-append-only")
        c.ens("status_reach(old(self.status), self.status)", label="status-moves-along-allowed-edges")
        c.ghost("exit_started", BOOL, init="False")
        c.ghost("exitset", SetSort(Node))
        c.ghost("rearmed", MapSort(Node, BOOL))
        c.ghost("in_rearm", BOOL, init="False")
        c.ghost("aborted", BOOL, init="False")
        c.before("await self._exit_states(sorted(list(states_to_exit), key=lambda s: (s.depth, s.id), reverse=True), event)",
                 "exit_started = True", "exitset = states_to_exit")
        c.before("self._active_state_nodes.clear()", "aborted = True")
        c.after("self._active_state_nodes.update(snapshot_before)", "in_rearm = True")
        c.after("self._schedule_state_tasks(node)", "rearmed = store(rearmed, node, True)")
        c.before("raise", "in_rearm = False")
        c.ens("not final_aborted", label="ghost:an-aborted-transition-is-reported-not-swallowed")
        # contract E applied (as a lemma proved inside the body; `target_state` is a local here, so it is not a postcondition):
        # what the step activates hangs below an active state and is locally legal - same hints as the sync step
        PREM = f"(target_state.type != 'history' and target_state != root and forall[Node](lambda a: implies(anc(transition.source, a), a in old({A}))))"
        P_ = "path_to_enter"
        c.before("await self._enter_states(path_to_enter, event)",
                 f"assert implies({PREM}, domain != None and domain in {A} and domain != target_state and anc(target_state, domain))",
                 f"assert implies({PREM}, len({P_}) >= 1 and {P_}[0] != None and {P_}[0].parent == domain and anc(target_state, {P_}[0]))",
                 f"assert implies({PREM}, forall[Node](lambda n: implies(n in {A}, n in old({A}))))",
                 f"assert implies({PREM} and {P_}[0].parent == domain, forall[Node](lambda n: implies(anc(n, {P_}[0]), not (n in {A}))))",
                 f"assert implies({PREM}, forall[int](lambda i: implies(0 <= i and i < len({P_}) and {P_}[i] != target_state, child_toward({P_}[i], target_state).parent == {P_}[i]), lambda i: {P_}[i]))",
                 f"assert implies({PREM}, forall[int](lambda i: implies(0 <= i and i < len({P_}), {P_}[i].type != 'history'), lambda i: {P_}[i]))",
                 f"assert implies({PREM}, forall[int](lambda i: implies(0 <= i and i < len({P_}), {P_}[i].depth == {P_}[0].depth + i), lambda i: {P_}[i]))",
                 f"assert implies({PREM} and {P_}[0].parent == domain, fresh_chain({P_}, {A}))")
        c.after("await self._enter_states(path_to_enter, event)",
                f"assert implies({PREM}, forall[Node](lambda n: implies(n in {A} and not (n in old({A})), ({P_}[0].parent == domain or {P_}[0] == root))))",
                f"assert implies({PREM} and {P_}[0].parent == domain, forall[Node](lambda n: implies(n in {A} and not (n in old({A})), (n.parent in {A} or n == root) and okn(n, {A}))))")
        c.may_raise("Exception", ensures=[
            ("configuration-rolled-back-exactly", f"set_eq({A}, old({A}))"), ("queue-append-only", "ghost:" + APP0),
            ("status-moves-along-allowed-edges", "status_reach(old(self.status), self.status)"), ("history-holds-states", HWF_X),
            ("exited-states-timers-and-services-re-armed", f"ghost:implies(final_exit_started and not final_in_rearm, forall[Node](lambda n: implies(n in old({A}) and n in final_exitset, final_rearmed[n])))")])
        CPN = "forall[int](lambda i: implies(0 <= i and i < len(combined_path), combined_path[i] != None))"
        c.before("combined_path.append(step)", "assert step != None")     # a small lemma first: keeps the invariant step independent of solver luck
        c.loop(0, inv=[]).loop(1, inv=[])
        c.loop(2, inv=[CPN]).loop(3, inv=[CPN])
        c.loop(4, inv=["aborted and in_rearm and exit_started", f"set_eq({A}, old({A}))",
                       "forall[int](lambda j: implies(0 <= j and j < _i and _seq[j] in exitset, rearmed[_seq[j]]))", APP0])
        c.loop(5, inv=[])

    # ---- the synchronous transition step: exit -> actions -> enter as ONE transaction (C07 atomicity) ---------
    @w.contract(SI + "_execute_transition_sync", props=["C07", "C01"])
    def _(c):
        c.param("transition", Trans).param("event", Ev)
        c.mod(*STATE_ALL)
        c.req("transition != None and transition.source != None and event != None")
        c.req(f"forall[Node](lambda n: implies(n in {A}, n != None))")
        c.req("forall[str, int](lambda k, i: implies(k in self._history and 0 <= i and i < len(self._history[k]), self._history[k][i] != None))")
        c.req("ghost:self._is_processing")
        c.ens(f"implies(old(transition.target_str) == None or old(transition.target_str) == '', set_eq({A}, old({A})))", label="targetless-transition-keeps-the-configuration")
        c.ens(ANN_X, label="configuration-holds-states")
        c.ens(HWF_X, label="history-holds-states")
        c.ens(APP0, label="ghost:queue-append-only")
        c.ens("status_reach(old(self.status), self.status)", label="status-moves-along-allowed-edges")
        c.may_raise("Exception", ensures=[("configuration-unchanged-when-the-transition-aborts", f"set_eq({A}, old({A}))"), ("queue-append-only", "ghost:" + APP0),
                                          ("status-moves-along-allowed-edges", "status_reach(old(self.status), self.status)"), ("history-holds-states", HWF_X)])
        c.loop(0, inv=[]).loop(1, inv=[])

    @w.contract(SI + "_process_single_transition", props=["C07", "C01"])
    def _(c):
        c.param("transition", Trans).param("event", Ev).param("target_state", Node)
        c.mod(*STATE_ALL)
        c.req("transition != None and transition.source != None and target_state != None and event != None")
        c.req(f"forall[Node](lambda n: implies(n in {A}, n != None))")
        c.req("forall[str, int](lambda k, i: implies(k in self._history and 0 <= i and i < len(self._history[k]), self._history[k][i] != None))")
        c.req("ghost:self._is_processing")
        c.ens(APP0, label="ghost:queue-append-only")
        c.ens("status_reach(old(self.status), self.status)", label="status-moves-along-allowed-edges")
        # whatever aborts the step (missing action / service, unresolvable history target, NotSupportedError ...):
        # the configuration is exactly the one before the transition
        # ghost bookkeeping of the rollback: which states had their timers/services cancelled, which were re-armed
        c.ghost("exit_started", BOOL, init="False")
        c.ghost("exitset", SetSort(Node))
        c.ghost("rearmed", MapSort(Node, BOOL))
        c.ghost("in_rearm", BOOL, init="False")
        c.ghost("aborted", BOOL, init="False")
        c.before("self._exit_states(sorted(list(states_to_exit), key=lambda s: (s.depth, s.id), reverse=True), event)",
                 "exit_started = True", "exitset = states_to_exit")
        c.before("self._active_state_nodes.clear()", "aborted = True")
        c.after("self._active_state_nodes.update(snapshot_before_transition)", "in_rearm = True")
        c.after("self._schedule_state_tasks(node)", "rearmed = store(rearmed, node, True)")
        c.before("raise", "in_rearm = False")
        c.ens("not final_aborted", label="ghost:an-aborted-transition-is-reported-not-swallowed")
        c.ens(ANN_X, label="configuration-holds-states")
        c.ens(HWF_X, label="history-holds-states")
        # contract E applied: when the source's ancestors are all active (true of a legal configuration) and the target is a real
        # state other than the root, the path entered is a fresh chain - so whatever this step activates hangs below an
        # active state and is locally legal
        c.ens(f"implies(target_state.type != 'history' and target_state != root and forall[Node](lambda a: implies(anc(transition.source, a), a in old({A}))), "
              f"forall[Node](lambda n: implies(n in {A} and not (n in old({A})), (n.parent in {A} or n == root) and okn(n, {A}))))", label="what-a-transition-activates-is-locally-legal")
        PREM = f"(target_state.type != 'history' and target_state != root and forall[Node](lambda a: implies(anc(transition.source, a), a in old({A}))))"
        P_ = "path_to_enter"
        c.before("self._enter_states(path_to_enter, event)",
                 f"assert implies({PREM}, domain != None and domain in {A} and domain != target_state and anc(target_state, domain))",
                 f"assert implies({PREM}, len({P_}) >= 1 and {P_}[0] != None and {P_}[0].parent == domain and anc(target_state, {P_}[0]))",
                 f"assert implies({PREM}, forall[Node](lambda n: implies(n in {A}, n in old({A}))))",
                 f"assert implies({PREM} and {P_}[0].parent == domain, forall[Node](lambda n: implies(anc(n, {P_}[0]), not (n in {A}))))",
                 f"assert implies({PREM}, forall[int](lambda i: implies(0 <= i and i < len({P_}) and {P_}[i] != target_state, child_toward({P_}[i], target_state).parent == {P_}[i]), lambda i: {P_}[i]))",
                 f"assert implies({PREM}, forall[int](lambda i: implies(0 <= i and i < len({P_}), {P_}[i].type != 'history'), lambda i: {P_}[i]))",
                 f"assert implies({PREM}, forall[int](lambda i: implies(0 <= i and i < len({P_}), {P_}[i].depth == {P_}[0].depth + i), lambda i: {P_}[i]))",
                 f"assert implies({PREM} and {P_}[0].parent == domain, fresh_chain({P_}, {A}))")
        c.after("self._enter_states(path_to_enter, event)",
                f"assert implies({PREM}, forall[Node](lambda n: implies(n in {A} and not (n in old({A})), ({P_}[0].parent == domain or {P_}[0] == root))))",
                f"assert implies({PREM} and {P_}[0].parent == domain, forall[Node](lambda n: implies(n in {A} and not (n in old({A})), (n.parent in {A} or n == root) and okn(n, {A}))))")
        c.may_raise("Exception", ensures=[
            ("configuration-rolled-back-exactly", f"set_eq({A}, old({A}))"), ("queue-append-only", "ghost:" + APP0),
            ("status-moves-along-allowed-edges", "status_reach(old(self.status), self.status)"), ("history-holds-states", HWF_X),
            # unless re-arming itself failed, every state whose timers were cancelled for the exit is re-armed
            ("exited-states-timers-and-services-re-armed", f"ghost:implies(final_exit_started and not final_in_rearm, forall[Node](lambda n: implies(n in old({A}) and n in final_exitset, final_rearmed[n])))")])
        CPN = "forall[int](lambda i: implies(0 <= i and i < len(combined_path), combined_path[i] != None))"
        c.before("combined_path.append(step)", "assert step != None")     # a small lemma first: keeps the invariant step independent of solver luck
        c.loop(0, inv=[CPN]).loop(1, inv=[CPN])
        c.loop(2, inv=["aborted and in_rearm and exit_started",
                       f"set_eq({A}, old({A}))",
                       "forall[int](lambda j: implies(0 <= j and j < _i and _seq[j] in exitset, rearmed[_seq[j]]))", APP0])

    @w.contract(SI + "_resolve_target_state_robustly", props=["C07"])
    def _(c):
        c.trusted = "assumed: resolves a target string to a state of the machine or raises (string search over the tree; bounded: C01/C09 drivers); may normalise transition.target_str"
        c.no_runtime = True
        c.param("transition", Trans).returns(Node)
        c.mod("Trans.target_str")
        c.ens("result != None")
        c.may_raise("Exception")

    PE_MODS = [A, "self._history", "self.context", "self.status", "self.output", "self.error", "self._action_depth",
               "self._event_queue", "self.g_accepted", *TASKS, "Flag.is_set", "Trans.target_str"]
    HWF = "forall[str, int](lambda k, i: implies(k in self._history and 0 <= i and i < len(self._history[k]), self._history[k][i] != None))"
    ANN_ = "forall[Node](lambda n: implies(n in self._active_state_nodes, n != None))"     # the configuration holds states
    APP_PE = "appended_only(old(self._event_queue), old(self.g_accepted), self._event_queue, self.g_accepted)"

    # the synchronous macrostep: select, then run each nominated transition (C02)
    def process_event_clauses(c, step_stmt):
        c.param("event", Ev)
        c.mod(*PE_MODS)
        c.req(f"legal({A})", "event != None", HWF, ANN_)
        c.req("ghost:self._is_processing")
        # NOT proved here (needs contract E of _enter_states): that the configuration is legal again afterwards - assumed for the
        # callers under proof (_process_event_queue), evaluated around every real call by the bounded layer
        c.ens(f"legal({A})", label="assume:legal-after-event")
        c.ens(APP_PE, label="ghost:queue-append-only")
        c.ens("status_reach(old(self.status), self.status)", label="status-moves-along-allowed-edges")
        c.ens(ANN_, label="configuration-holds-states")
        c.ens(HWF, label="history-holds-states")
        # C02: an event with no nominee is a no-op - nothing at all is written
        c.expose = ["transitions"]
        c.local("transitions", ListSort(Trans))
        NOOP = (f"set_eq({A}, old({A})) and self.context == old(self.context) and self.status == old(self.status) and self.output == old(self.output) "
                f"and self.error == old(self.error) and seq_eq(self._event_queue, old(self._event_queue)) "
                f"and forall[str](lambda k: (k in self._history) == (k in old(self._history)) and implies(k in self._history, seq_eq(self._history[k], old(self._history)[k]))) "
                f"and forall[str](lambda k: (k in self._after_events) == (k in old(self._after_events))) and len(self._actors) == len(old(self._actors)) "
                f"and forall[Flag](lambda f: f.is_set == old(f.is_set))")
        c.ens(f"implies(len(final_transitions) == 0, {NOOP})", label="ghost:event-without-nominee-changes-nothing")
        c.ghost("fired", INT, init="0")
        c.after(step_stmt, "fired = fired + 1")
        c.ens("final_fired <= len(final_transitions)", label="ghost:no-transition-outside-the-nominated-set-runs")
        c.ens("implies(len(final_transitions) == 1, final_fired == 1)", label="ghost:a-single-nominee-always-fires")
        c.may_raise("Exception", ensures=["assume:" + f"legal({A})", "ghost:" + APP_PE, "status_reach(old(self.status), self.status)", ANN_, HWF])
        c.loop(0, inv=["fired <= _i", "implies(len(transitions) == 1, fired == _i)", APP_PE, "status_reach(old(self.status), self.status)",
                       f"forall[Node](lambda n: implies(n in {A}, n != None))", HWF])


    @w.contract(SI + "_process_event", props=["C01", "C02", "C07"])
    def _(c):
        process_event_clauses(c, "self._execute_transition_sync(transition, event)")

    # the asyncio macrostep: the same body with awaits (C05: both engines satisfy one contract)
    @w.contract(BI + "_process_event", props=["C01", "C02", "C07", "C05"])
    def _(c):
        process_event_clauses(c, "await self._execute_transition(transition, event)")

    # ---- callees of the exit/entry routines -----------------------------------------------------------
    @w.contract("xstate_statemachine.interpreter:Interpreter._cancel_state_tasks", props=["C08"])
    def _(c):
        c.trusted = "assumed frame for the asyncio engine: delegates to TaskManager.cancel_by_owner (asyncio task table outside the modelled state)"
        c.param("state", Node)
        c.mod("self._after_events", "self._after_threads")

    # ---- running one action list (C07 containment) ----------------------------------------------------
    Q_, ACC_ = "self._event_queue", "self.g_accepted"
    EFFECT = ["self.context", "self.status", "self.output", "self.error", "self._action_depth", *TASKS, Q_, ACC_, "Flag.is_set"]
    MONO_ = "forall[Flag](lambda f: implies(old(f.is_set), f.is_set))"          # cancellation flags are only ever set
    APPENDED = f"appended_only(old({Q_}), old({ACC_}), {Q_}, {ACC_})"
    AE_ = "self._after_events"
    # running actions never arms an `after` timer (only entering a state does): the sync timer table can only lose entries
    SHRINK = f"forall[str](lambda k: implies(k in {AE_}, k in old({AE_}) and {AE_}[k] == old({AE_})[k]))"
    KEEP = ["status_reach(old(self.status), self.status)", "ghost:" + APPENDED, "ghost:" + SHRINK, "ghost:" + MONO_]

    def exec_actions_clauses(c):
        c.param("actions", ListSort(Act)).param("event", Ev)
        c.mod(*EFFECT)
        # model-only precondition: actions run while an event is being processed, so a send() made by an
        # action only appends (SyncInterpreter.send: event-sent-during-processing-is-queued-not-run-re-entrantly)
        c.req("ghost:self._is_processing")
        c.req("forall[int](lambda i: implies(0 <= i and i < len(actions), actions[i] != None))")
        c.ens("self._action_depth == old(self._action_depth)", label="action-depth-restored")
        c.ens(KEEP[0], label="status-moves-along-allowed-edges")
        c.ens(APPENDED, label="ghost:queue-append-only")
        c.ens(SHRINK, label="ghost:no-after-timer-armed-by-an-action")
        c.ens(MONO_, label="ghost:no-cancellation-flag-cleared")
        # only configuration errors escape - never what a user action or a built-in raised (C07: contained, rest of the list skipped)
        for x in ("ImplementationMissingError", "NotSupportedError", "ActorSpawningError", "FactoryExc"):
            c.may_raise(x, ensures=["self._action_depth == old(self._action_depth)", *KEEP])

    @w.contract(SI + "_execute_actions", props=["C07"])
    def _(c):
        exec_actions_clauses(c)
        c.no_runtime = False
        c.user_effect = "action"
        c.ghost("nran", INT, init="0")           # actions of this list that ran to completion
        c.ghost("failed", BOOL, init="False")    # one of them raised and was contained
        c.after("self._spawn_actor(action_def, event)", "nran = nran + 1")
        c.after("self._execute_builtin_action(canonical, action_def, event)", "nran = nran + 1")
        c.after("action_impl(self, self.context, event, action_def)", "nran = nran + 1")
        c.before("return#2", "failed = True")
        c.before("return#3", "failed = True")
        c.ens("implies(not final_failed, final_nran == len(actions))", label="ghost:every-action-runs-unless-one-fails")
        c.ens("implies(final_failed, final_nran < len(actions))", label="ghost:a-failure-skips-the-rest-of-this-list-only")
        c.loop(0, inv=["nran == _i", "not failed", "self._action_depth == old(self._action_depth)", KEEP[0], APPENDED, SHRINK, MONO_])
        for k in (1, 2, 3):
            c.loop(k, inv=[])

    @w.contract("xstate_statemachine.interpreter:Interpreter._execute_actions", props=["C07", "C05"])
    def _(c):
        # the asyncio twin: same clauses as the sync body (C05: the engines agree because their bodies satisfy the same contract);
        # `await` is dropped by the extraction (A-seq), asyncio.CancelledError is passed through by the code and never raised by a modelled callee
        exec_actions_clauses(c)
        c.user_effect = "action"
        c.ghost("nran", INT, init="0")
        c.ghost("failed", BOOL, init="False")
        c.after("await self._spawn_actor(action_def, event)", "nran = nran + 1")
        c.after("await self._execute_builtin_action(canonical, action_def, event)", "nran = nran + 1")
        c.after("await action_callable(self, self.context, event, action_def)", "nran = nran + 1")
        c.after("action_callable(self, self.context, event, action_def)", "nran = nran + 1")
        c.before("return#2", "failed = True")
        c.before("return#3", "failed = True")
        c.ens("implies(not final_failed, final_nran == len(actions))", label="ghost:every-action-runs-unless-one-fails")
        c.ens("implies(final_failed, final_nran < len(actions))", label="ghost:a-failure-skips-the-rest-of-this-list-only")
        c.loop(0, inv=["nran == _i", "not failed", "self._action_depth == old(self._action_depth)", KEEP[0], APPENDED, SHRINK, MONO_])
        for k in (1, 2, 3):
            c.loop(k, inv=[])

    @w.contract(SI + "_execute_builtin_action", also=["xstate_statemachine.interpreter:Interpreter._execute_builtin_action"], props=["C07"])
    def _(c):
        c.trusted = ("assumed: a built-in action (raise/sendTo/assign/log/cancel/pure/choose ...) changes context/output/error/status and the "
                     "timer/actor tables, reaches the queue only through send(), restores _action_depth (try/finally), and may raise anything")
        c.no_runtime = True
        c.param("canonical", STR).param("action_def", Act).param("event", Ev)
        c.mod(*EFFECT)
        c.req("ghost:self._is_processing")
        c.ens("self._action_depth == old(self._action_depth)", KEEP[0])
        c.ens(APPENDED, label="ghost:queue-append-only")
        c.ens(SHRINK, label="ghost:no-after-timer-armed")
        c.ens(MONO_, label="ghost:no-cancellation-flag-cleared")
        c.may_raise("Exception", ensures=["self._action_depth == old(self._action_depth)", *KEEP])

    @w.contract(SI + "_spawn_actor", also=["xstate_statemachine.interpreter:Interpreter._spawn_actor"], props=["C07", "C15"])
    def _(c):
        c.trusted = ("assumed: registers a child actor (self._actors / system registry); a blocking child may send events back (append-only); "
                     "raises ActorSpawningError for a bad service, or whatever the user's factory raises (FactoryExc)")
        c.no_runtime = True
        c.param("action_def", Act).param("event", Ev).param("on_complete", OptSort(STR))
        c.defaults = {"on_complete": "None"}
        c.mod("self.context", *TASKS, Q_, ACC_)
        c.ens(APPENDED, label="ghost:queue-append-only")
        c.ens(SHRINK, label="ghost:no-after-timer-armed")
        c.may_raise("ActorSpawningError", ensures=["ghost:" + APPENDED, "ghost:" + SHRINK])
        c.may_raise("FactoryExc", ensures=["ghost:" + APPENDED, "ghost:" + SHRINK])

    @w.contract(SI + "_is_async_callable", props=["C07"])
    def _(c):
        c.trusted = "assumed total and effect-free (inspects __code__.co_flags of a python callable: outside the modelled value domain)"
        c.no_runtime = True
        c.param("callable_obj", Callable_).returns(BOOL)

    AC = "xstate_statemachine.actions:"

    @w.contract(AC + "resolve_builtin", props=["C07"])
    def _(c):
        c.param("action_type", STR).returns(OptSort(STR))
        c.ens("(result != None) == (action_type in BUILTIN_ACTION_ALIASES)", label="canonical-name-iff-alias-known")

    @w.contract(AC + "is_builtin", props=["C07"])
    def _(c):
        c.param("action_type", STR).returns(BOOL)
        c.ens("result == (action_type in BUILTIN_ACTION_ALIASES)", label="true-iff-alias-known")

    INV_X = f"forall[Node](lambda n: (n in {A}) == (n in old({A}) and not exists[int](lambda k: 0 <= k and k < _i and states_to_exit[k] == n)))"

    def exit_states_clauses(c):
        c.param("states_to_exit", ListSort(Node)).param("event", Ev)
        c.defaults = {"event": "None"}
        c.mod(A, "self._history", "self.context", "self._action_depth", "self.status", "self.output", "self.error", *TASKS, Q_, ACC_, "Flag.is_set")
        c.req("forall[int](lambda i: implies(0 <= i and i < len(states_to_exit), states_to_exit[i] != None))")
        c.req(f"forall[Node](lambda n: implies(n in {A}, n != None))")
        c.req("ghost:self._is_processing")        # exit actions run while an event is being processed (see _execute_actions)
        c.ens(f"forall[Node](lambda n: (n in {A}) == (n in old({A}) and not (n in states_to_exit)))", label="removes-exactly-the-listed-states")
        c.ens(APPENDED, label="ghost:queue-append-only")
        c.ens(KEEP[0], label="status-moves-along-allowed-edges")
        c.req(HWF_X)
        c.ens(HWF_X, label="history-holds-states")
        c.may_raise("Exception", ensures=[f"forall[Node](lambda n: implies(n in {A}, n in old({A})))", "ghost:" + APPENDED, KEEP[0], HWF_X])

    @w.contract(BI + "_exit_states", props=["C01", "C03"])
    def _(c):
        exit_states_clauses(c)
        c.loop(0, inv=[INV_X, APPENDED, KEEP[0]])

    @w.contract(SI + "_exit_states", props=["C01", "C03", "C08"])
    def _(c):
        exit_states_clauses(c)
        OWNED_J = "(k == states_to_exit[j].id or k.startswith(states_to_exit[j].id + '::'))"
        # C08: leaving a state cancels its `after` timers BEFORE any exit action runs, and no action re-arms one
        c.label_props = {"no-after-timer-of-an-exited-state-survives": ["C08"], "every-timer-of-an-exited-state-is-cancelled": ["C08"]}
        c.ens(f"forall[str](lambda k: implies(k in {AE_}, k in old({AE_}) and not exists[int](lambda j: 0 <= j and j < len(states_to_exit) and {OWNED_J})))",
              label="ghost:no-after-timer-of-an-exited-state-survives")
        c.ens(f"forall[str](lambda k: implies(k in old({AE_}) and exists[int](lambda j: 0 <= j and j < len(states_to_exit) and {OWNED_J}), old({AE_})[k].is_set))",
              label="ghost:every-timer-of-an-exited-state-is-cancelled")
        T0 = f"forall[str](lambda k: implies(k in {AE_}, k in old({AE_}) and {AE_}[k] == old({AE_})[k] and not exists[int](lambda j: 0 <= j and j < _i and {OWNED_J})))"
        T0b = f"forall[str](lambda k: implies(k in old({AE_}) and not exists[int](lambda j: 0 <= j and j < _i and {OWNED_J}), k in {AE_}))"
        T1 = f"forall[str](lambda k: implies(k in {AE_}, k in old({AE_}) and not exists[int](lambda j: 0 <= j and j < len(states_to_exit) and {OWNED_J})))"
        SET = f"forall[str](lambda k: implies(k in old({AE_}) and exists[int](lambda j: 0 <= j and j < _i and {OWNED_J}), old({AE_})[k].is_set))"
        SET1 = f"forall[str](lambda k: implies(k in old({AE_}) and exists[int](lambda j: 0 <= j and j < len(states_to_exit) and {OWNED_J}), old({AE_})[k].is_set))"
        MONO = "forall[Flag](lambda f: implies(old(f.is_set), f.is_set))"
        c.loop(0, inv=[f"set_eq({A}, old({A}))", APPENDED, T0, T0b, SET, MONO, KEEP[0]])     # first pass only cancels timers
        c.loop(1, inv=[INV_X, APPENDED, T1, SET1, MONO, KEEP[0]])

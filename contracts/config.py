"""Contracts on the functions that change or inspect the active configuration
(C01, C03, C10, C11).  Contracts marked `bounded_only` are evaluated at run time
around the real functions (layer B) and are NOT counted as proved until the
flag is removed."""
from pyvc.sorts import BOOL, INT, STR, ListSort, SetSort
from specs.xsm import Node, Trans, Ev

BI = "xstate_statemachine.base_interpreter:BaseInterpreter."
SI = "xstate_statemachine.sync_interpreter:SyncInterpreter."
A = "self._active_state_nodes"
# bookkeeping of timers / delayed sends / child actors: written whenever states are exited or entered or actions run
TASKS = ["self._after_events", "self._after_threads", "self._pending_send_cancels", "self._scheduled_sends", "self._actors"]


def register(w):
    @w.contract(BI + "_execute_transition", also=[SI + "_execute_transition_sync"], props=["C01", "C03", "C07"])
    def _(c):
        c.bounded_only = True
        c.param("transition", Trans).param("event", Ev)
        c.mod(A, "self._history", "self.context", "self.status", "self.output", "self.error", "self._action_depth", *TASKS)
        c.req(f"legal({A})", "transition != None and transition.source in " + A)
        c.ens(f"legal({A})", label="legal-after-transition")
        c.may_raise("Exception", ensures=[f"set_eq({A}, old({A}))"])

    @w.contract(BI + "_process_event", also=[SI + "_process_event"], props=["C01", "C02"])
    def _(c):
        c.bounded_only = True
        c.param("event", Ev)
        c.mod(A, "self._history", "self.context", "self.status", "self.output", "self.error", "self._action_depth",
              "self._event_queue", "self.g_accepted", *TASKS)
        c.req(f"legal({A})")
        c.ens(f"legal({A})", label="legal-after-event")
        # P-only clause (ghost state): actions reach the queue only through send(), which appends while processing
        c.ens("appended_only(old(self._event_queue), old(self.g_accepted), self._event_queue, self.g_accepted)", label="ghost:queue-append-only")
        c.ens("status_reach(old(self.status), self.status)", label="status-moves-along-allowed-edges")
        c.may_raise("Exception", ensures=[f"legal({A})", "ghost:appended_only(old(self._event_queue), old(self.g_accepted), self._event_queue, self.g_accepted)",
                                          "status_reach(old(self.status), self.status)"])

    # ---- callees of the exit/entry routines -----------------------------------------------------------
    @w.contract(BI + "_record_history", props=["C11"])
    def _(c):
        c.trusted = "assumed frame (writes self._history only); body under run-time contract in bounded.c11"
        c.param("states_to_exit", ListSort(Node))
        c.mod("self._history")

    @w.contract(SI + "_cancel_state_tasks", also=["xstate_statemachine.interpreter:Interpreter._cancel_state_tasks"], props=["C08"])
    def _(c):
        c.trusted = "assumed frame: touches timer/task bookkeeping only (fields outside the modelled interpreter state)"
        c.param("state", Node)
        c.mod("self._after_events", "self._after_threads")

    @w.contract(SI + "_execute_actions", also=["xstate_statemachine.interpreter:Interpreter._execute_actions"], props=["C07"])
    def _(c):
        c.trusted = ("assumed: user actions and built-ins change only context / output / error / status(via _fail,_complete) "
                     "and the event queue (A-user: never _active_state_nodes or _history); a user action that raises is contained; "
                     "only configuration errors (an Exception subclass) escape")
        c.param("actions", ListSort(Ev.__class__ and __import__('specs.xsm', fromlist=['Act']).Act)).param("event", Ev)
        c.mod("self.context", "self.status", "self.output", "self.error", "self._action_depth", *TASKS)
        c.may_raise("Exception")

    @w.contract(BI + "_exit_states", also=[SI + "_exit_states"], props=["C01", "C03"])
    def _(c):
        c.param("states_to_exit", ListSort(Node)).param("event", Ev)
        c.defaults = {"event": "None"}
        c.mod(A, "self._history", "self.context", "self._action_depth", "self.status", "self.output", "self.error", *TASKS)
        c.req("forall[int](lambda i: implies(0 <= i and i < len(states_to_exit), states_to_exit[i] != None))")
        c.ens(f"forall[Node](lambda n: (n in {A}) == (n in old({A}) and not (n in states_to_exit)))", label="removes-exactly-the-listed-states")
        c.may_raise("Exception", ensures=[f"forall[Node](lambda n: implies(n in {A}, n in old({A})))"])
        INV = f"forall[Node](lambda n: (n in {A}) == (n in old({A}) and not exists[int](lambda k: 0 <= k and k < _i and states_to_exit[k] == n)))"
        c.loop(0, inv=[INV], body="BaseInterpreter._exit_states")
        c.loop(0, inv=[f"set_eq({A}, old({A}))"], body="SyncInterpreter._exit_states")     # first pass only cancels timers
        c.loop(1, inv=[INV], body="SyncInterpreter._exit_states")

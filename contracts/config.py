"""Contracts on the functions that change or inspect the active configuration
(C01, C03, C10, C11).  Contracts marked `bounded_only` are evaluated at run time
around the real functions (layer B) and are NOT counted as proved until the
flag is removed."""
from pyvc.sorts import BOOL, INT, STR, ListSort, SetSort
from specs.xsm import Node, Trans, Ev

BI = "xstate_statemachine.base_interpreter:BaseInterpreter."
SI = "xstate_statemachine.sync_interpreter:SyncInterpreter."
A = "self._active_state_nodes"


def register(w):
    @w.contract(BI + "_execute_transition", also=[SI + "_execute_transition_sync"], props=["C01", "C03", "C07"])
    def _(c):
        c.bounded_only = True
        c.param("transition", Trans).param("event", Ev)
        c.mod(A, "self._history", "self.context", "self.status", "self.output", "self.error", "self._action_depth")
        c.req(f"legal({A})", "transition != None and transition.source in " + A)
        c.ens(f"legal({A})", label="legal-after-transition")
        c.may_raise("Exception", ensures=[f"set_eq({A}, old({A}))"])

    @w.contract(BI + "_process_event", also=[SI + "_process_event"], props=["C01", "C02"])
    def _(c):
        c.bounded_only = True
        c.param("event", Ev)
        c.mod(A, "self._history", "self.context", "self.status", "self.output", "self.error", "self._action_depth")
        c.req(f"legal({A})")
        c.ens(f"legal({A})", label="legal-after-event")
        c.may_raise("Exception", ensures=[f"legal({A})"])

    @w.contract(BI + "_exit_states", also=[SI + "_exit_states"], props=["C01", "C03"])
    def _(c):
        c.bounded_only = True
        c.param("states_to_exit", ListSort(Node)).param("event", Ev)
        c.defaults = {"event": "None"}
        c.mod(A, "self._history", "self.context", "self._action_depth", "self.status", "self.output", "self.error")
        c.ens(f"forall[Node](lambda n: (n in {A}) == (n in old({A}) and not (n in states_to_exit)))", label="removes-exactly-the-listed-states")
        c.may_raise("Exception")

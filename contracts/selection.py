"""C02 / C06 / C10 contracts (run-time checked; proofs are added function by function)."""
from pyvc.sorts import BOOL, INT, STR, ListSort, SetSort, OPAQUE
from specs.xsm import Node, Trans, Ev, Guard

BI = "xstate_statemachine.base_interpreter:BaseInterpreter."
A = "self._active_state_nodes"


def register(w):
    register_guards(w)

    @w.contract(BI + "_select_transitions", props=["C02", "C16"])
    def _(c):
        c.bounded_only = True
        c.param("event", Ev).returns(ListSort(Trans))
        c.req(f"legal({A})")
        c.ens("seq_eq(result, spec_selected(self, event))", label="result-is-the-nominated-set")
        c.may_raise("ImplementationMissingError")

    @w.contract(BI + "can", props=["C02"])
    def _(c):
        c.bounded_only = True
        c.param("event", OPAQUE).returns(BOOL)
        c.ens("result == (len(spec_selected(self, self._coerce_event(event))) > 0)", label="can-iff-nominee-exists")

    @w.contract(BI + "_is_state_done", props=["C10"])
    def _(c):
        c.bounded_only = True
        c.param("state_node", Node).returns(BOOL)
        c.req("state_node != None")
        c.ens(f"implies(legal({A}), result == spec_done(state_node, {A}))", label="done-as-stated")


def register_guards(w):
    from pyvc.sorts import BOOL, OPAQUE
    from specs.xsm import Ev, Guard
    BI = "xstate_statemachine.base_interpreter:BaseInterpreter."

    @w.contract(BI + "_is_guard_satisfied", props=["C06", "C02"])
    def _(c):
        c.bounded_only = True
        c.param("guard", Guard).param("event", Ev).returns(BOOL)
        c.ens("result == spec_guard_value(self, guard, event)", label="guard-value-as-stated")
        c.may_raise("ImplementationMissingError", when="spec_guard_value(self, guard, event) == 'missing'")

"""C02 / C06 / C10 contracts (run-time checked; proofs are added function by function)."""
from pyvc.sorts import BOOL, INT, STR, ListSort, SetSort, OPAQUE, DictSort, MapSort
from specs.xsm import Node, Trans, Ev, Guard, Callable_

BI = "xstate_statemachine.base_interpreter:BaseInterpreter."
A = "self._active_state_nodes"


def register(w):
    register_guards(w)

    # a transition may be nominated only if its guard - when it can be decided at all - is true (C06: guards gate transitions)
    w.macro("passes_ok", ["t", "e", "A_", "c_"], "t.guard_def == None or gmiss(t.guard_def) or gval(t.guard_def, e, A_, c_)")
    # the per-pass guard memo only ever holds faithful verdicts
    w.macro("cache_ok", ["m", "e", "A_", "c_"], "forall[Trans](lambda t: implies(t != None and id(t) in m and m[id(t)], passes_ok(t, e, A_, c_)))")
    CTX = f"{A}, self.context"

    @w.contract(BI + "_collect_eligible_transitions", props=["C02", "C06"])
    def _(c):
        c.no_runtime = True
        # modelled for the memoising call of _select_transitions (guard_cache is a dict); the guard_cache=None spelling is not modelled
        c.param("state", Node).param("event", Ev).param("guard_cache", DictSort(INT, BOOL)).returns(ListSort(Trans))
        c.mutates_param("guard_cache")
        c.req("state != None and event != None", f"cache_ok(guard_cache, event, {CTX})")
        c.ens("forall[int](lambda i: implies(0 <= i and i < len(result), result[i] != None and result[i].source != None and anc(state, result[i].source)))",
              label="candidates-are-declared-on-the-state-or-an-ancestor")
        c.ens("forall[int, int](lambda i, j: implies(0 <= i and i < j and j < len(result), result[i].source.depth >= result[j].source.depth))",
              label="deepest-source-first")
        c.ens(f"forall[int](lambda i: implies(0 <= i and i < len(result), passes_ok(result[i], event, {CTX})))", label="every-candidate-passed-its-guard")
        c.ens(f"cache_ok(final_guard_cache, event, {CTX})", label="guard-memo-stays-faithful")
        c.may_raise("ImplementationMissingError")
        EL = "eligible"
        IA = (f"forall[int](lambda i: implies(0 <= i and i < len({EL}), {EL}[i] != None and {EL}[i].source != None and anc(state, {EL}[i].source) "
              f"and (current == None or {EL}[i].source.depth >= current.depth) and passes_ok({EL}[i], event, {CTX})))")
        IB = f"forall[int, int](lambda i, j: implies(0 <= i and i < j and j < len({EL}), {EL}[i].source.depth >= {EL}[j].source.depth))"
        IC = f"cache_ok(guard_cache, event, {CTX})"
        c.loop(0, inv=["current == None or anc(state, current)", IA, IB, IC], decreases="ite(current != None, current.depth + 1, 0)")
        for k in range(1, 8):
            c.loop(k, inv=["current != None and anc(state, current)", IA, IB, IC])

    @w.contract(BI + "_select_transitions", props=["C02", "C16"])
    def _(c):
        c.param("event", Ev).returns(ListSort(Trans))
        c.req(f"legal({A})", "event != None", f"forall[Node](lambda n: implies(n in {A}, n != None))")
        c.ens("seq_eq(result, spec_selected(self, event))", label="rt:result-is-the-nominated-set")
        c.may_raise("ImplementationMissingError")
        # ghost: W = the transitions nominated by some leaf (its first eligible candidate); NW = how many distinct ones
        c.ghost("W", MapSort(Trans, BOOL), assume="forall[Trans](lambda t: not W[t])")
        c.ghost("visited", MapSort(Node, BOOL))
        c.after("eligible = self._collect_eligible_transitions(leaf, event, guard_cache)", "visited = store(visited, leaf, True)")
        LEAF = "(n.type == 'atomic' or n.type == 'final' or len(n.states) == 0)"
        c.ens(f"forall[Node](lambda n: implies(n in {A} and {LEAF}, final_visited[n]))", label="ghost:every-active-leaf-is-asked-for-its-nominee")
        c.after("winner = ...",
                # the nominee of a leaf is the FIRST eligible candidate: nearest handler, declaration order (C02)
                "assert[first-eligible-wins] winner == eligible[0]",
                "W = store(W, winner, True)")
        c.ens("forall[int](lambda i: implies(0 <= i and i < len(result), result[i] != None and final_W[result[i]]))", label="ghost:only-nominated-transitions-are-selected")
        c.ens("forall[int](lambda i: implies(0 <= i and i < len(result), result[i] != None and result[i].source != None))", label="selected-transitions-have-a-source")
        c.ens("forall[Trans](lambda t: implies(final_W[t], t in result))", label="ghost:every-nominated-transition-is-selected")
        c.ens("forall[int, int](lambda i, j: implies(0 <= i and i < j and j < len(result), result[i] != result[j]))", label="a-shared-transition-is-selected-once")
        c.ens("forall[int, int](lambda i, j: implies(0 <= i and i < j and j < len(result), result[i].source.depth >= result[j].source.depth))", label="deepest-source-first")
        c.loop(0, inv=[
            "forall[int](lambda i: implies(0 <= i and i < len(selected), selected[i] != None and selected[i].source != None and W[selected[i]]))",
            "forall[Trans](lambda t: implies(W[t], t in selected))",
            "forall[int, int](lambda i, j: implies(0 <= i and i < j and j < len(selected), selected[i] != selected[j]))",
            "forall[Trans](lambda t: (id(t) in seen) == (t in selected))",
            "forall[int](lambda j: implies(0 <= j and j < _i, visited[_seq[j]]))",
        ])

    @w.contract(BI + "_coerce_event", props=["C02"])
    def _(c):
        c.trusted = "assumed: normalises str / dict / event objects into a non-null event or raises TypeError (isinstance dispatch over python dynamic types); effect-free"
        c.no_runtime = True
        c.param("event", OPAQUE).returns(Ev)
        c.ens("result != None")
        c.may_raise("TypeError")

    @w.contract(BI + "can", props=["C02"])
    def _(c):
        # frame: NO field of the interpreter is in `modifies` - can() changes nothing (configuration, context, history,
        # queue, timers ...), whether it answers True or False and also when selection fails (reported as False)
        c.param("event", OPAQUE).returns(BOOL)
        c.req(f"legal({A})", f"forall[Node](lambda n: implies(n in {A}, n != None))")
        c.ens("result == (len(spec_selected(self, self._coerce_event(event))) > 0)", label="rt:can-iff-nominee-exists")
        c.ens("result == True or result == False", label="answers-a-boolean")
        c.may_raise("TypeError")       # only for a value that is not an event at all; a failing guard lookup is answered False

    @w.contract(BI + "_is_state_done", props=["C10"])
    def _(c):
        c.bounded_only = True
        c.param("state_node", Node).returns(BOOL)
        c.req("state_node != None")
        c.ens(f"implies(legal({A}), result == spec_done(state_node, {A}))", label="rt:done-as-stated")


def register_guards(w):
    from pyvc.sorts import BOOL, OPAQUE
    from specs.xsm import Ev, Guard
    BI = "xstate_statemachine.base_interpreter:BaseInterpreter."

    @w.contract(BI + "_resolve_params", props=["C06"])
    def _(c):
        c.trusted = "assumed: resolves literal / callable params (a params callable that raises propagates); effect-free (A-user); bounded.c06"
        c.no_runtime = True
        c.param("params", OPAQUE).param("event", Ev).returns(OPAQUE)
        c.ens("not praises(params, event, self.context)")
        c.may_raise("UserExc", when="praises(params, event, self.context)")

    @w.contract(BI + "_call_with_optional_params", props=["C06"])
    def _(c):
        c.trusted = ("assumed (A-guard-pure): calls the user predicate with or without params by signature inspection; its outcome is "
                     "ucall_truth / ucall_raises of (predicate, event, context); effect-free (A-user)")
        c.no_runtime = True
        c.param("fn", Callable_).param("context", OPAQUE).param("event", Ev).param("params", OPAQUE).returns(BOOL)
        c.ens("not ucall_raises(fn, event, context) and result == ucall_truth(fn, event, context)")
        c.may_raise("UserExc", when="ucall_raises(fn, event, context)")

    @w.contract(BI + "_is_state_in", props=["C06"])
    def _(c):
        c.trusted = "assumed: the built-in stateIn test = stin(guard, event, configuration) (string matching over dynamic params; bounded.c06 checks it against the statement)"
        c.no_runtime = True
        c.param("guard", Guard).param("event", Ev).returns(BOOL)
        c.ens(f"result == stin(guard, event, {A})")

    @w.contract(BI + "_is_guard_satisfied", props=["C06", "C02"])
    def _(c):
        c.param("guard", Guard).param("event", Ev).returns(BOOL)
        c.req("event != None")
        c.ens("result == spec_guard_value(self, guard, event)", label="rt:guard-value-as-stated")
        c.ens("implies(guard == None, result)", label="no-guard-means-enabled")
        # and / or / not with ordinary boolean meaning at any depth; a predicate that raises counts as false (inside gval)
        c.ens(f"implies(guard != None and not gmiss(guard), result == gval(guard, event, {A}, self.context))", label="ghost:value-is-the-boolean-meaning-of-the-expression")
        # a named predicate that is not implemented is reported, never decided either way
        c.ens("implies(guard != None and not guard.is_composite, not gmiss(guard))", label="ghost:a-missing-predicate-is-never-decided")
        c.may_raise("ImplementationMissingError", when="ghost:guard != None and gmiss(guard)")
        c.decreases = "ite(guard != None, gsize(guard) + 1, 0)"
        G = f"gval(guard.children[j], event, {A}, self.context)"
        c.loop(0, inv=[f"forall[int](lambda j: implies(0 <= j and j < _i and not gmiss(guard), {G}))"])
        c.loop(1, inv=[f"forall[int](lambda j: implies(0 <= j and j < _i and not gmiss(guard), not {G}))"])
        c.loop(2, inv=[])

"""C02 / C06 / C10 contracts (run-time checked; proofs are added function by function)."""
from pyvc.sorts import BOOL, INT, STR, ListSort, SetSort, OPAQUE, DictSort, MapSort
from specs.xsm import Node, Trans, Ev, Guard

BI = "xstate_statemachine.base_interpreter:BaseInterpreter."
A = "self._active_state_nodes"


def register(w):
    register_guards(w)

    @w.contract(BI + "_collect_eligible_transitions", props=["C02", "C06"])
    def _(c):
        c.trusted = ("assumed here (bounded: the run-time twin clause of _select_transitions and bounded.c02/c06): every returned transition is "
                     "declared on the state or one of its ancestors, deepest source first (the walk goes upward); guards are evaluated through "
                     "_is_guard_satisfied only (A-user: no interpreter state is written)")
        c.no_runtime = True
        c.param("state", Node).param("event", Ev).param("guard_cache", DictSort(INT, BOOL)).returns(ListSort(Trans))
        c.req("state != None and event != None")
        c.ens("forall[int](lambda i: implies(0 <= i and i < len(result), result[i] != None and result[i].source != None and anc(state, result[i].source)))")
        c.ens("forall[int, int](lambda i, j: implies(0 <= i and i < j and j < len(result), result[i].source.depth >= result[j].source.depth))")
        c.may_raise("ImplementationMissingError")

    @w.contract(BI + "_select_transitions", props=["C02", "C16"])
    def _(c):
        c.param("event", Ev).returns(ListSort(Trans))
        c.req(f"legal({A})", "event != None", f"forall[Node](lambda n: implies(n in {A}, n != None))")
        c.ens("seq_eq(result, spec_selected(self, event))", label="rt:result-is-the-nominated-set")
        c.may_raise("ImplementationMissingError")
        # ghost: W = the transitions nominated by some leaf (its first eligible candidate); NW = how many distinct ones
        c.ghost("W", MapSort(Trans, BOOL), assume="forall[Trans](lambda t: not W[t])")
        c.ghost("visited", MapSort(Node, BOOL))
        c.after("eligible = self._collect_eligible_transitions(leaf, event, guard_cache)", "visited = store(visited, leaf, True)")
        LEAF = "(n.type == 'atomic' or n.type == 'final' or len(n.states) == 0)"
        c.ens(f"forall[Node](lambda n: implies(n in {A} and {LEAF}, final_visited[n]))", label="ghost:every-active-leaf-is-asked-for-its-nominee")
        c.after("winner = ...",
                # the nominee of a leaf is the FIRST eligible candidate: nearest handler, declaration order (C02)
                "assert[first-eligible-wins] winner == eligible[0]",
                "W = store(W, winner, True)")
        c.ens("forall[int](lambda i: implies(0 <= i and i < len(result), result[i] != None and final_W[result[i]]))", label="ghost:only-nominated-transitions-are-selected")
        c.ens("forall[int](lambda i: implies(0 <= i and i < len(result), result[i] != None and result[i].source != None))", label="selected-transitions-have-a-source")
        c.ens("forall[Trans](lambda t: implies(final_W[t], t in result))", label="ghost:every-nominated-transition-is-selected")
        c.ens("forall[int, int](lambda i, j: implies(0 <= i and i < j and j < len(result), result[i] != result[j]))", label="a-shared-transition-is-selected-once")
        c.ens("forall[int, int](lambda i, j: implies(0 <= i and i < j and j < len(result), result[i].source.depth >= result[j].source.depth))", label="deepest-source-first")
        c.loop(0, inv=[
            "forall[int](lambda i: implies(0 <= i and i < len(selected), selected[i] != None and selected[i].source != None and W[selected[i]]))",
            "forall[Trans](lambda t: implies(W[t], t in selected))",
            "forall[int, int](lambda i, j: implies(0 <= i and i < j and j < len(selected), selected[i] != selected[j]))",
            "forall[Trans](lambda t: (id(t) in seen) == (t in selected))",
            "forall[int](lambda j: implies(0 <= j and j < _i, visited[_seq[j]]))",
        ])

    @w.contract(BI + "_coerce_event", props=["C02"])
    def _(c):
        c.trusted = "assumed: normalises str / dict / event objects into a non-null event or raises TypeError (isinstance dispatch over python dynamic types); effect-free"
        c.no_runtime = True
        c.param("event", OPAQUE).returns(Ev)
        c.ens("result != None")
        c.may_raise("TypeError")

    @w.contract(BI + "can", props=["C02"])
    def _(c):
        # frame: NO field of the interpreter is in `modifies` - can() changes nothing (configuration, context, history,
        # queue, timers ...), whether it answers True or False and also when selection fails (reported as False)
        c.param("event", OPAQUE).returns(BOOL)
        c.req(f"legal({A})", f"forall[Node](lambda n: implies(n in {A}, n != None))")
        c.ens("result == (len(spec_selected(self, self._coerce_event(event))) > 0)", label="rt:can-iff-nominee-exists")
        c.ens("result == True or result == False", label="answers-a-boolean")
        c.may_raise("TypeError")       # only for a value that is not an event at all; a failing guard lookup is answered False

    @w.contract(BI + "_is_state_done", props=["C10"])
    def _(c):
        c.bounded_only = True
        c.param("state_node", Node).returns(BOOL)
        c.req("state_node != None")
        c.ens(f"implies(legal({A}), result == spec_done(state_node, {A}))", label="done-as-stated")


def register_guards(w):
    from pyvc.sorts import BOOL, OPAQUE
    from specs.xsm import Ev, Guard
    BI = "xstate_statemachine.base_interpreter:BaseInterpreter."

    @w.contract(BI + "_is_guard_satisfied", props=["C06", "C02"])
    def _(c):
        c.bounded_only = True
        c.param("guard", Guard).param("event", Ev).returns(BOOL)
        c.ens("result == spec_guard_value(self, guard, event)", label="guard-value-as-stated")
        c.may_raise("ImplementationMissingError", when="spec_guard_value(self, guard, event) == 'missing'")

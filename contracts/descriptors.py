"""C20 (and the matching half of C02): event descriptor matching."""
from pyvc.sorts import BOOL, INT, STR, DictSort, ListSort, SetSort, MapSort
from specs.xsm import Node, Trans

BI = "xstate_statemachine.base_interpreter:BaseInterpreter."


def register(w):
    # Specification vocabulary, written from the property statement:
    #   'p.*' matches 'p' itself and anything beginning 'p.'
    w.macro("partial_match", ["k", "e"],
            "k.endswith('.*') and (e == k[:len(k) - 2] or e.startswith(k[:len(k) - 2] + '.'))")
    #   synthetic events the engine raises: done.*, error.*, after.*, xstate.*
    w.macro("synthetic", ["e"],
            "e.startswith('done.') or e.startswith('error.') or e.startswith('after.') or e.startswith('xstate.')")
    w.macro("n_exact", ["m", "e"], "ite(e in m, 1, 0)")
    w.macro("n_star", ["m", "e"], "ite('*' in m and not synthetic(e), 1, 0)")
    w.macro("is_key_at", ["m", "k", "i"], "0 <= i and i < len(keys(m)) and keys(m)[i] == k")

    @w.contract(BI + "_matching_descriptors", props=["C20", "C02"])
    def _(c):
        c.param("on_map", DictSort(STR, ListSort(Trans))).param("event_type", STR)
        c.returns(ListSort(STR))
        X, S = "n_exact(on_map, event_type)", "n_star(on_map, event_type)"
        c.ens("implies(len(on_map) == 0 or event_type == '', len(result) == 0)", label="empty-input-matches-nothing")
        c.ens("forall[int](lambda j: implies(0 <= j and j < len(result), result[j] in on_map))", label="only-declared-keys")
        c.ens(f"implies(event_type != '', len(result) >= {X} + {S})", label="length-lower-bound")
        c.ens("implies(event_type != '' and event_type in on_map, result[0] == event_type)", label="exact-key-first")
        c.ens(f"implies(event_type != '' and synthetic(event_type), len(result) == {X})", label="synthetic-only-exact")
        c.ens(f"implies(event_type != '' and {S} == 1, result[len(result) - 1] == '*')", label="wildcard-last")
        # the middle section [X, len-S) is exactly the matching partial descriptors ...
        c.ens(f"implies(event_type != '', forall[int](lambda j: implies({X} <= j and j < len(result) - {S}, partial_match(result[j], event_type))))", label="middle-are-partial-matches")
        c.ens(f"implies(event_type != '' and not synthetic(event_type), forall[str](lambda k: implies(k in on_map and partial_match(k, event_type), exists[int](lambda j: {X} <= j and j < len(result) - {S} and result[j] == k))))", label="every-partial-match-present")
        c.ens(f"implies(event_type != '', forall[int, int](lambda j, l: implies({X} <= j and j < l and l < len(result) - {S}, result[j] != result[l])))", label="middle-no-duplicates")
        # ... in decreasing prefix length, ties in declaration (key) order
        c.ens(f"implies(event_type != '', forall[int, int](lambda j, l: implies({X} <= j and j < l and l < len(result) - {S}, len(result[j]) >= len(result[l]))))", label="longest-prefix-first")
        c.ens(f"implies(event_type != '', forall[int, int](lambda j, l: implies({X} <= j and j < l and l < len(result) - {S} and len(result[j]) == len(result[l]), keyidx(on_map, result[j]) < keyidx(on_map, result[l]))))", label="ties-in-declaration-order")
        # ghost witness: W[i] = position in `partials` of the i-th key (when it matches)
        c.ghost("W", MapSort(INT, INT))
        c.after("partials.append(key)", "W = store(W, _i, len(partials) - 1)")
        PM = "forall[int](lambda i: implies(0 <= i and i < len(keys(on_map)) and partial_match(keys(on_map)[i], event_type), exists[int](lambda j: %s and %s[j] == keys(on_map)[i])))"
        c.after("partials.sort(key=len, reverse=True)", "assert[every-partial-match-present] " + PM % ("0 <= j and j < len(partials)", "partials"))
        c.after("matches.extend(partials)", "assert[every-partial-match-present] " + PM % (f"{X} <= j and j < len(matches)", "matches"))
        MEM = "forall[int](lambda j: implies(%s, %s[j] in on_map and partial_match(%s[j], event_type)))"
        c.after("partials.sort(key=len, reverse=True)", "assert " + MEM % ("0 <= j and j < len(partials)", "partials", "partials"))
        c.after("matches.extend(partials)", "assert " + MEM % (f"{X} <= j and j < len(matches)", "matches", "matches"))
        c.after("matches.extend(partials)", "assert forall[int](lambda j: implies(0 <= j and j < len(matches), matches[j] in on_map))")
        c.loop(0, inv=[
            "len(partials) >= 0 and len(partials) <= _i",
            f"len(matches) == {X}",
            "implies(event_type in on_map, matches[0] == event_type)",
            "forall[int](lambda j: implies(0 <= j and j < len(partials), partials[j] in on_map))",
            "forall[int](lambda j: implies(0 <= j and j < len(partials), keyidx(on_map, partials[j]) < _i))",
            "forall[int](lambda j: implies(0 <= j and j < len(partials), partial_match(partials[j], event_type)))",
            "forall[int](lambda i: implies(0 <= i and i < _i and partial_match(_seq[i], event_type), 0 <= W[i] and W[i] < len(partials) and partials[W[i]] == _seq[i]))",
            "forall[int, int](lambda j, l: implies(0 <= j and j < l and l < len(partials), keyidx(on_map, partials[j]) < keyidx(on_map, partials[l])))",
        ])

"""C04 / C13 / C14: the synchronous event queue, with ghost state.

Ghost fields (verification only): g_accepted - every event accepted while running, in order;
g_removed - every event taken off the queue front, in order; g_ndiscarded - how many of those
were thrown away unprocessed.  Invariant  accepted == removed ++ queue  (FIFO, nothing lost
or duplicated inside the queue); lossless = nothing is discarded while the machine is running.
"""
from pyvc.sorts import BOOL, INT, STR, ListSort, SetSort, OPAQUE, MapSort
from specs.xsm import Node, Trans, Ev

BI = "xstate_statemachine.base_interpreter:BaseInterpreter."
SI = "xstate_statemachine.sync_interpreter:SyncInterpreter."
A = "self._active_state_nodes"
Q, ACC, REM = "self._event_queue", "self.g_accepted", "self.g_removed"
STATE = [A, "self._history", "self.context", "self.status", "self.output", "self.error", "self._action_depth",
         "self._after_events", "self._after_threads", "self._pending_send_cancels", "self._scheduled_sends", "self._actors", "self._raise_depth"]


def _dict_same(d):
    return (f"forall[str](lambda k: ((k in {d}) == (k in old({d}))) and implies(k in {d}, {d}[k] == old({d})[k]))")


# nothing but the queue / accepted history moved (used for the deferred, re-entrant calls)
SAME_REST = " and ".join(f"same({f}, old({f}))" for f in [A, "self.status", "self.context", "self.output", "self.error", "self._action_depth", "self._is_processing",
                                                          "self.g_removed", "self.g_ndiscarded", "self._history", "self._after_events", "self._after_threads",
                                                          "self._scheduled_sends", "self._actors", "self._pending_send_cancels", "self._raise_depth"]) + \
    " and forall[Flag](lambda f: f.is_set == old(f.is_set)) and forall[Trans](lambda t: t.target_str == old(t.target_str))"


def register(w):
    # the configuration and the recorded history hold states (never None): an invariant of every interpreter routine
    w.macro("wf_state", ["A_", "H_"],
            "forall[Node](lambda n: implies(n in A_, n != None))"
            " and forall[str, int](lambda k, i: implies(k in H_ and 0 <= i and i < len(H_[k]), H_[k][i] != None))")
    w.macro("queue_inv", ["q", "acc", "rem"],
            "len(acc) == len(rem) + len(q)"
            " and forall[int](lambda i: implies(0 <= i and i < len(rem), acc[i] == rem[i]))"
            " and forall[int](lambda i: implies(0 <= i and i < len(q), q[i] == acc[len(rem) + i]), lambda i: q[i])"
            " and forall[int](lambda j: implies(len(rem) <= j and j < len(acc), acc[j] == q[j - len(rem)]), lambda j: acc[j])"
            " and forall[int](lambda i: implies(0 <= i and i < len(q), q[i] != None), lambda i: q[i])")
    # what processing one event may do to the queue: append-only, and every appended event is accepted
    w.macro("appended_only", ["q0", "acc0", "q1", "acc1"],
            "len(q1) >= len(q0) and len(acc1) - len(acc0) == len(q1) - len(q0)"
            " and forall[int](lambda i: implies(0 <= i and i < len(q0), q1[i] == q0[i]))"
            " and forall[int](lambda i: implies(0 <= i and i < len(acc0), acc1[i] == acc0[i]))"
            " and forall[int](lambda j: implies(len(q0) <= j and j < len(q1), q1[j] == acc1[j - len(q0) + len(acc0)]), lambda j: q1[j])"
            " and forall[int](lambda j: implies(len(acc0) <= j and j < len(acc1), acc1[j] == q1[j - len(acc0) + len(q0)]), lambda j: acc1[j])"
            " and forall[int](lambda j: implies(len(q0) <= j and j < len(q1), q1[j] != None), lambda j: q1[j])")

    @w.contract(BI + "_prepare_event", props=["C04"])
    def _(c):
        c.trusted = "assumed: normalises str / dict / event objects into a non-null event or raises TypeError (isinstance dispatch over python dynamic types; bounded: exercised by every driver)"
        c.param("event_or_type", OPAQUE).returns(Ev)
        c.ens("result != None")
        c.may_raise("TypeError")

    @w.contract(SI + "_process_transient_transitions", props=["C04", "C13", "C01"])
    def _(c):
        # settles always-transitions: a bounded number of microsteps (C13), each a full _process_event (so the legality
        # of the configuration rests on the one assumed clause of _process_event), the queue only grows at the back
        c.no_runtime = True
        c.mod(*STATE, Q, ACC, "Flag.is_set", "Trans.target_str")
        c.req(f"legal({A})", "self._is_processing", f"wf_state({A}, self._history)", "root.max_iterations >= 0")
        KEEP = [f"legal({A})", f"appended_only(old({Q}), old({ACC}), {Q}, {ACC})", "status_reach(old(self.status), self.status)", f"wf_state({A}, self._history)"]
        c.ens(*KEEP)
        c.may_raise("Exception", ensures=KEEP)
        # C04/C13: the loop is left only when the microstep bound is hit or no always-transition is nominated any more
        # (hooks sit on the two statements every iteration executes, so an extra exit shows up as a failing postcondition)
        c.ghost("limit_hit", BOOL, init="False")
        c.ghost("none_left", BOOL, init="False")
        c.after("iterations += 1", "limit_hit = iterations > limit")
        c.after("selected = self._select_transitions(transient_event)",
                "none_left = not (len(selected) > 0 and exists[int](lambda i: 0 <= i and i < len(selected) and selected[i].event == ''))")
        c.ens("final_limit_hit or final_none_left", label="ghost:settles-until-stable-or-the-microstep-bound")
        c.loop(0, inv=[*KEEP, "self._is_processing", "iterations >= 0", "limit == root.max_iterations"],
               decreases="ite(limit - iterations + 1 > 0, limit - iterations + 1, 0)")

    @w.contract(SI + "_process_event_queue", props=["C04", "C13", "C14", "C01"])
    def _(c):
        c.no_runtime = True
        c.mod(*STATE, Q, ACC, REM, "self.g_ndiscarded", "self._is_processing", "Flag.is_set", "Trans.target_str")
        # a re-entrant call (flag already set) is deferred and needs nothing; the drain proper needs the interpreter invariants
        c.req(f"implies(not self._is_processing, queue_inv({Q}, {ACC}, {REM}) and legal({A}) and wf_state({A}, self._history) and root.max_iterations >= 0)")
        c.ens(f"implies(not old(self._is_processing), wf_state({A}, self._history))", label="configuration-and-history-hold-states")
        # re-entrant call (an action sent an event while another is in flight): nothing happens now
        c.ens(f"implies(old(self._is_processing), seq_eq({Q}, old({Q})) and seq_eq({REM}, old({REM})) and set_eq({A}, old({A})) and self.status == old(self.status) and self._is_processing)",
              label="re-entrant-call-is-deferred")
        c.ens(f"implies(old(self._is_processing), seq_eq({ACC}, old({ACC})) and {SAME_REST})", label="re-entrant-call-changes-nothing")
        c.ens(f"implies(not old(self._is_processing), queue_inv({Q}, {ACC}, {REM}))", label="fifo-nothing-lost-or-duplicated-in-the-queue")
        c.ens("status_reach(old(self.status), self.status)", label="status-moves-along-allowed-edges")
        c.ens(f"implies(not old(self._is_processing), not self._is_processing and legal({A}))", label="flag-released-and-configuration-legal")
        c.ens(f"implies(not old(self._is_processing), len({Q}) == 0)", label="queue-drained-on-return")
        c.ens(f"len({ACC}) >= len(old({ACC})) and forall[int](lambda i: implies(0 <= i and i < len(old({ACC})), {ACC}[i] == old({ACC})[i]), lambda i: {ACC}[i])", label="accepted-history-is-append-only")
        # known finding KF-C04-sync-burst-discarded: the per-drain bound discards what is still queued; the carve-out is exactly
        # "this drain hit the bound" (ghost flag set on that branch) - any other loss of an accepted event still fails here
        c.label_props = {"discard-only-after-termination": ["C04", "C13"], "no-accepted-event-is-discarded": ["C04", "C13"]}
        c.ghost("limit_hit", BOOL, init="False")
        c.ens("implies(not final_limit_hit, self.g_ndiscarded == old(self.g_ndiscarded))", label="no-accepted-event-is-discarded")
        # a deferred (re-entrant) call returns at once: it cannot raise
        c.may_raise("Exception", when="not self._is_processing", ensures=["status_reach(old(self.status), self.status)", f"queue_inv({Q}, {ACC}, {REM})", "not self._is_processing", f"legal({A})",
                                          "implies(not final_limit_hit, self.g_ndiscarded == old(self.g_ndiscarded))", f"len({ACC}) >= len(old({ACC})) and forall[int](lambda i: implies(0 <= i and i < len(old({ACC})), {ACC}[i] == old({ACC})[i]), lambda i: {ACC}[i])",
                                          f"wf_state({A}, self._history)"])
        c.after("current_event = self._event_queue.popleft()", f"{REM} = append({REM}, current_event)",
                f"assert queue_inv({Q}, {ACC}, {REM})")
        c.after("self._process_event(current_event)", f"assert queue_inv({Q}, {ACC}, {REM})")
        c.after("self._process_transient_transitions()", f"assert queue_inv({Q}, {ACC}, {REM})")
        c.before("self._event_queue.clear()#2", "limit_hit = True")
        for k in (1, 2):
            # a discarded event is still "removed from the queue front": the FIFO invariant survives, the loss is counted
            c.before(f"self._event_queue.clear()#{k}",
                     "assert[discard-only-after-termination] self.status != 'running'",
                     f"self.g_ndiscarded = self.g_ndiscarded + ite(self.status == 'running', len({Q}), 0)",
                     f"{REM} = cat({REM}, {Q})")
        c.before = {}
        c.loop(0, inv=[
            f"queue_inv({Q}, {ACC}, {REM})", f"legal({A})", f"wf_state({A}, self._history)", "self._is_processing", "processed >= 0",
            "limit == root.max_iterations", "not limit_hit", "status_reach(old(self.status), self.status)", "self.g_ndiscarded == old(self.g_ndiscarded)",
            f"len({ACC}) >= len(old({ACC})) and forall[int](lambda i: implies(0 <= i and i < len(old({ACC})), {ACC}[i] == old({ACC})[i]), lambda i: {ACC}[i])",
        ], decreases="ite(limit - processed + 1 > 0, limit - processed + 1, 0) + len(self._event_queue) * 0")
        c.loop(1, inv=["status_reach(old(self.status), self.status)", f"queue_inv({Q}, {ACC}, {REM})", f"legal({A})", f"wf_state({A}, self._history)", "self._is_processing", "not limit_hit",
                       "self.g_ndiscarded == old(self.g_ndiscarded)", f"len({ACC}) >= len(old({ACC})) and forall[int](lambda i: implies(0 <= i and i < len(old({ACC})), {ACC}[i] == old({ACC})[i]), lambda i: {ACC}[i])"])

    @w.contract(SI + "send", props=["C04", "C14", "C01"])
    def _(c):
        c.no_runtime = True
        c.param("event_or_type", OPAQUE)
        c.mod(*STATE, Q, ACC, REM, "self.g_ndiscarded", "self._is_processing", "Flag.is_set", "Trans.target_str")
        c.req(f"implies(not self._is_processing, queue_inv({Q}, {ACC}, {REM}) and legal({A}) and wf_state({A}, self._history) and root.max_iterations >= 0)")
        c.ens(f"implies(not old(self._is_processing), wf_state({A}, self._history))", label="configuration-and-history-hold-states")
        c.ens(f"implies(old(self.status) != 'running', seq_eq({Q}, old({Q})) and seq_eq({ACC}, old({ACC})) and set_eq({A}, old({A})) and self.status == old(self.status) and self._is_processing == old(self._is_processing))",
              label="send-on-non-running-interpreter-changes-and-queues-nothing")
        c.ens(f"implies(not old(self._is_processing), queue_inv({Q}, {ACC}, {REM}))", label="fifo-nothing-lost-or-duplicated-in-the-queue")
        c.ens(f"implies(old(self.status) == 'running', len({ACC}) >= len(old({ACC})) + 1)", label="running-interpreter-accepts-the-event")
        c.ens(f"forall[int](lambda i: implies(0 <= i and i < len(old({ACC})), {ACC}[i] == old({ACC})[i]))", label="accepted-history-is-append-only")
        c.ens(f"implies(old(self.status) == 'running' and old(self._is_processing), len({Q}) == len(old({Q})) + 1 and set_eq({A}, old({A})))",
              label="event-sent-during-processing-is-queued-not-run-re-entrantly")
        c.ens(f"implies(old(self.status) == 'running' and old(self._is_processing), {SAME_REST} and appended_only(old({Q}), old({ACC}), {Q}, {ACC}))",
              label="event-sent-during-processing-only-appends")
        c.ens(f"implies(old(self.status) != 'running', {SAME_REST})", label="send-on-non-running-interpreter-writes-nothing")
        c.ens(f"implies(not old(self._is_processing), not self._is_processing and legal({A}))", label="legal-configuration-when-send-returns")
        c.may_raise("Exception", ensures=[f"implies(not old(self._is_processing), queue_inv({Q}, {ACC}, {REM}) and wf_state({A}, self._history))", f"implies(not old(self._is_processing), not self._is_processing and legal({A}))",
                                          ("a-refused-event-changes-nothing", f"implies(old(self._is_processing) or old(self.status) != 'running', {SAME_REST} and same({Q}, old({Q})) and same({ACC}, old({ACC})))")])
        c.after("self._event_queue.append(event_obj)", f"{ACC} = append({ACC}, event_obj)",
                f"assert implies(not self._is_processing, queue_inv({Q}, {ACC}, {REM}))",
                f"assert forall[int](lambda i: implies(0 <= i and i < len(old({ACC})), {ACC}[i] == old({ACC})[i]))")


    ENTER_MODS = [A, "self.context", "self.status", "self.output", "self.error", "self._action_depth",
                  "self._after_events", "self._after_threads", "self._pending_send_cancels", "self._scheduled_sends", "self._actors", "self._raise_depth", Q, ACC, "Flag.is_set"]
    APP_E = f"appended_only(old({Q}), old({ACC}), {Q}, {ACC})"
    LISTED_NN = "forall[int](lambda i: implies(0 <= i and i < len(states_to_enter), states_to_enter[i] != None))"
    E1 = f"forall[Node](lambda n: implies(n in old({A}), n in {A}))"
    E2 = f"forall[int](lambda i: implies(0 <= i and i < len(states_to_enter), states_to_enter[i] in {A}))"
    E3 = f"forall[Node](lambda n: implies(n in {A} and not (n in old({A})), exists[int](lambda i: 0 <= i and i < len(states_to_enter) and anc(n, states_to_enter[i]))))"
    ANN_E = f"implies(forall[Node](lambda n: implies(n in old({A}), n != None)), forall[Node](lambda n: implies(n in {A}, n != None)))"

    P0 = f"fresh_forest(states_to_enter, old({A}))"
    L_ = "states_to_enter"
    FOREST_INV = [
        f"implies({P0}, forall[Node](lambda n: implies(n in {A} and not (n in old({A})), exists[int](lambda j: 0 <= j and j < _i and anc(n, {L_}[j])))))",
        f"implies({P0}, forall[Node](lambda n: implies(n in {A} and not (n in old({A})), (exists[int](lambda j: 0 <= j and j < _i and n == {L_}[j]) or n.parent in {A}) and okn(n, {A}))))",
        f"implies({P0}, forall[int, Node](lambda j, n: implies(_i <= j and j < len({L_}) and anc(n, {L_}[j]), not (n in {A}))))",
    ]

    # lemmas around the two recursive calls of the default descent (proved where they stand, then available to the
    # invariant step): the list handed down is itself a fresh forest, and afterwards the state just entered is locally legal
    SUBTREE_EMPTY = f"assert implies({P0}, forall[Node](lambda n: implies(anc(n, state) and n != state, not (n in {A}))))"
    HINTS_CHILD_BEFORE = [
        SUBTREE_EMPTY,
        f"assert implies({P0}, state in {A} and initial_child.parent == state and initial_child.type != 'history')",
        f"assert implies({P0}, forall[Node](lambda n: implies(anc(n, initial_child), not (n in {A}))))",
    ]
    HINTS_REGIONS_BEFORE = [
        SUBTREE_EMPTY,
        f"assert implies({P0}, state in {A} and forall[int](lambda i: implies(0 <= i and i < len(regions), regions[i] != None and regions[i].parent == state and regions[i].type != 'history')))",
        f"assert implies({P0}, forall[int, int](lambda i, j: implies(0 <= i and i < len(regions) and 0 <= j and j < len(regions) and i != j, regions[i] != regions[j] and not anc(regions[i], regions[j]))))",
        f"assert implies({P0}, forall[int, Node](lambda i, n: implies(0 <= i and i < len(regions) and anc(n, regions[i]), not (n in {A}))))",
    ]
    HINTS_AFTER = [f"assert implies({P0}, okn(state, {A}))"]

    PC = f"fresh_chain(states_to_enter, old({A}))"
    CHAIN_INV = [
        # (inductive) every element of the chain lies in the subtree of its first element
        f"implies({PC}, forall[int](lambda j: implies(0 <= j and j <= _i and j < len({L_}), anc({L_}[j], {L_}[0]) and {L_}[j].depth == {L_}[0].depth + j), lambda j: {L_}[j]))",
        f"implies({PC}, forall[Node](lambda n: implies(n in {A} and not (n in old({A})), anc(n, {L_}[0]))))",
        f"implies({PC} and _i < len({L_}), forall[Node](lambda n: implies(anc(n, {L_}[_i]), not (n in {A}))))",
        f"implies({PC}, forall[Node](lambda n: implies(n in {A} and not (n in old({A})), n == {L_}[0] or n.parent in {A})))",
        f"implies({PC}, forall[Node](lambda n: implies(n in {A} and not (n in old({A})), (0 < _i and _i < len({L_}) and n == {L_}[_i - 1]) or okn(n, {A}))))",
        f"implies({PC} and 0 < _i and _i < len({L_}), pending({L_}[_i - 1], {A}, {L_}[_i]))",
    ]

    def enter_clauses(c):
        c.param("states_to_enter", ListSort(Node)).param("event", Ev)
        c.defaults = {"event": "None"}
        c.mod(*ENTER_MODS)                      # NOT self._history: entering never records history
        c.req(LISTED_NN)
        c.req("ghost:self._is_processing")      # entry actions run while an event is being processed
        # contract E (the configuration is legal again) is proved for fresh forests (below); for the path shape that a
        # transition enters it remains the one assumed clause of _process_event
        # contract E for the shape of start() and of every recursive call (proved): each newly active state hangs below an
        # active state and is locally legal - its compound / parallel / history conditions hold in the new configuration
        c.ens(f"implies(fresh_forest(states_to_enter, old({A})), forall[Node](lambda n: implies(n in {A} and not (n in old({A})), "
              f"(exists[int](lambda i: 0 <= i and i < len(states_to_enter) and n == states_to_enter[i]) or n.parent in {A}) and okn(n, {A}))))",
              label="a-fresh-forest-is-entered-legally")
        c.ens(f"implies(fresh_chain(states_to_enter, old({A})), forall[Node](lambda n: implies(n in {A} and not (n in old({A})), "
              f"(n == states_to_enter[0] or n.parent in {A}) and okn(n, {A}))))", label="a-fresh-chain-is-entered-legally")
        c.ens(E1, label="entering-exits-nothing")
        c.ens(E2, label="every-listed-state-is-entered")
        c.ens(E3, label="only-listed-states-and-their-descendants-are-entered")
        c.ens(APP_E, label="ghost:queue-append-only")
        c.ens("status_reach(old(self.status), self.status)", label="status-moves-along-allowed-edges")
        c.ens(ANN_E, label="configuration-holds-states")
        c.may_raise("Exception", ensures=[("entering-exits-nothing", E1), ("only-listed-states-and-their-descendants-are-entered", E3),
                                          ("queue-append-only", "ghost:" + APP_E), ("status-moves-along-allowed-edges", "status_reach(old(self.status), self.status)"),
                                          ("configuration-holds-states", ANN_E)])

    @w.contract(SI + "_enter_states", props=["C01", "C03", "C08", "C09"])
    def _(c):
        c.no_runtime = True
        enter_clauses(c)
        c.user_effect = "action"
        # termination of the default descent: every recursive call enters children of a listed state
        c.ghost_param("hb", INT, default="height(root) + 1")
        c.req("ghost:hb >= 0 and forall[int](lambda i: implies(0 <= i and i < len(states_to_enter), height(states_to_enter[i]) < hb))")
        c.decreases = "hb"
        # C08/C09: every state this call enters itself gets its after-timers armed and its services started - on every branch
        # of the per-state loop (the early `continue` of the explicit-child case included)
        c.ghost("scheduled", MapSort(Node, BOOL))
        c.after("self._schedule_state_tasks(state)", "scheduled = store(scheduled, state, True)")
        c.label_props = {"every-entered-state-has-its-tasks-scheduled": ["C08", "C09", "C01"]}
        c.ens("forall[int](lambda i: implies(0 <= i and i < len(states_to_enter), final_scheduled[states_to_enter[i]]))",
              label="ghost:every-entered-state-has-its-tasks-scheduled")
        # ground instance: the next element of the chain makes this state an "explicit" parent (so the default descent is skipped)
        c.after("self._active_state_nodes.add(state)", f"assert implies({PC} and _i + 1 < len({L_}), {L_}[_i + 1].parent == state and state.id in explicit_children and {L_}[_i + 1].id in explicit_child_ids)")
        c.after("regions = ...",
                f"assert implies({PC} and _i + 1 < len({L_}), forall[Node](lambda c: implies(c != None and c.parent == state and c.type != 'history' and c != {L_}[_i + 1], exists[int](lambda k: 0 <= k and k < len(regions) and regions[k] == c))))")
        c.after("self._enter_states(regions, event)", f"assert implies({PC} and _i + 1 < len({L_}), pending(state, {A}, {L_}[_i + 1]))")
        c.before("self._enter_states([initial_child], event)", "ghostarg_hb = height(state)", *HINTS_CHILD_BEFORE)
        c.after("self._enter_states([initial_child], event)",
                f"assert initial_child != None",
                f"assert initial_child in {A}",
                f"assert initial_child.parent == state",
                f"assert implies({P0}, forall[Node](lambda c: implies(c in {A} and c != None and c.parent == state, anc(c, initial_child))))",
                f"assert implies({P0}, forall[Node](lambda c: implies(c in {A} and c != None and c.parent == state, c == initial_child)))",
                *HINTS_AFTER)
        c.before("self._enter_states(regions, event)", "ghostarg_hb = height(state)", *HINTS_REGIONS_BEFORE)
        c.after("self._enter_states(regions, event)", *HINTS_AFTER)
        c.loop(0, inv=[
            f"forall[Node](lambda n: implies(n in old({A}), n in {A}))",
            f"forall[int](lambda j: implies(0 <= j and j < _i, states_to_enter[j] in {A}))",
            E3, APP_E, "status_reach(old(self.status), self.status)", ANN_E,
            "forall[int](lambda j: implies(0 <= j and j < _i, scheduled[states_to_enter[j]]))",
            *FOREST_INV, *CHAIN_INV,
        ])

    @w.contract(BI + "_enter_states", props=["C01", "C03", "C05", "C09"])
    def _(c):
        # the asyncio twin of the entry routine: proved for the same clauses as the sync body (all but contract E's legality clause)
        c.no_runtime = True
        enter_clauses(c)
        c.user_effect = "action"
        c.ghost_param("hb", INT, default="height(root) + 1")
        c.req("ghost:hb >= 0 and forall[int](lambda i: implies(0 <= i and i < len(states_to_enter), height(states_to_enter[i]) < hb))")
        c.decreases = "hb"
        c.ghost("scheduled", MapSort(Node, BOOL))
        c.after("self._schedule_state_tasks(state)", "scheduled = store(scheduled, state, True)")
        c.label_props = {"every-entered-state-has-its-tasks-scheduled": ["C09", "C01"]}
        c.ens("forall[int](lambda i: implies(0 <= i and i < len(states_to_enter), final_scheduled[states_to_enter[i]]))",
              label="ghost:every-entered-state-has-its-tasks-scheduled")
        c.before("await self._enter_states([initial_child], trigger_event)", "ghostarg_hb = height(state)", *HINTS_CHILD_BEFORE)
        c.after("await self._enter_states([initial_child], trigger_event)",
                f"assert initial_child != None", f"assert initial_child in {A}", f"assert initial_child.parent == state",
                f"assert implies({P0}, forall[Node](lambda c: implies(c in {A} and c != None and c.parent == state, anc(c, initial_child))))",
                f"assert implies({P0}, forall[Node](lambda c: implies(c in {A} and c != None and c.parent == state, c == initial_child)))",
                *HINTS_AFTER)
        c.before("await self._enter_states(regions, trigger_event)", "ghostarg_hb = height(state)", *HINTS_REGIONS_BEFORE)
        c.after("await self._enter_states(regions, trigger_event)", *HINTS_AFTER)
        c.after("self._active_state_nodes.add(state)", f"assert implies({PC} and _i + 1 < len({L_}), {L_}[_i + 1].parent == state and state.id in explicit_children and {L_}[_i + 1].id in explicit_child_ids)")
        c.after("regions = ...",
                f"assert implies({PC} and _i + 1 < len({L_}), forall[Node](lambda c: implies(c != None and c.parent == state and c.type != 'history' and c != {L_}[_i + 1], exists[int](lambda k: 0 <= k and k < len(regions) and regions[k] == c))))")
        c.after("await self._enter_states(regions, trigger_event)", f"assert implies({PC} and _i + 1 < len({L_}), pending(state, {A}, {L_}[_i + 1]))")
        c.loop(0, inv=[
            f"forall[Node](lambda n: implies(n in old({A}), n in {A}))",
            f"forall[int](lambda j: implies(0 <= j and j < _i, states_to_enter[j] in {A}))",
            E3, APP_E, "status_reach(old(self.status), self.status)", ANN_E,
            "forall[int](lambda j: implies(0 <= j and j < _i, scheduled[states_to_enter[j]]))",
            "trigger_event != None",
            *FOREST_INV, *CHAIN_INV,
        ])

    @w.contract(BI + "_resolve_output", props=["C10"])
    def _(c):
        c.trusted = "assumed total and effect-free: a literal, or a user callable whose exception is caught (returns None); A-user"
        c.no_runtime = True
        c.param("final_state", Node).returns(OPAQUE)

    @w.contract(BI + "_resolve_output_value", props=["C10"])
    def _(c):
        c.trusted = "assumed total and effect-free: a literal, or a user callable whose exception is caught (returns None); A-user"
        c.no_runtime = True
        c.param("output", OPAQUE).returns(OPAQUE)

    AI = "xstate_statemachine.interpreter:Interpreter."

    @w.contract(AI + "send", props=["C04", "C14", "C05"])
    def _(c):
        # the asyncio engine's send(): never processes inline - it only enqueues (or drops, once the interpreter is finished)
        c.no_runtime = True
        c.param("event_or_type", OPAQUE)
        c.mod(Q, ACC)
        FIN = "(old(self.status) == 'stopped' or old(self.status) == 'done' or old(self.status) == 'error')"
        c.ens(f"implies({FIN}, same({Q}, old({Q})) and same({ACC}, old({ACC})))", label="finished-interpreter-drops-the-event")
        c.ens(f"implies(not {FIN}, len({Q}) == len(old({Q})) + 1)", label="otherwise-exactly-one-event-is-queued")
        c.ens(APP_E, label="ghost:queue-append-only")
        c.may_raise("TypeError", ensures=[f"same({Q}, old({Q})) and same({ACC}, old({ACC}))"])
        c.after("await self._event_queue.put(event_obj)", f"{ACC} = append({ACC}, event_obj)")

    @w.contract(AI + "_settle_transient_transitions", props=["C13", "C05", "C01"])
    def _(c):
        # the asyncio twin of SyncInterpreter._process_transient_transitions: same clauses
        c.no_runtime = True
        c.mod(*STATE, Q, ACC, "Flag.is_set", "Trans.target_str")
        c.req(f"legal({A})", "ghost:self._is_processing", f"wf_state({A}, self._history)", "root.max_iterations >= 0")
        KEEP_S = [f"legal({A})", f"appended_only(old({Q}), old({ACC}), {Q}, {ACC})", "status_reach(old(self.status), self.status)", f"wf_state({A}, self._history)"]
        for k_ in KEEP_S:
            c.ens(k_, label=("ghost:queue-append-only" if k_.startswith("appended_only") else None))
        c.may_raise("Exception", ensures=[("ghost:" + k_ if k_.startswith("appended_only") else k_) for k_ in KEEP_S])
        c.ghost("limit_hit", BOOL, init="False")
        c.ghost("none_left", BOOL, init="False")
        c.after("iterations += 1", "limit_hit = iterations > limit")
        c.after("selected = self._select_transitions(transient_event)",
                "none_left = not (len(selected) > 0 and exists[int](lambda i: 0 <= i and i < len(selected) and selected[i].event == ''))")
        c.ens("final_limit_hit or final_none_left", label="ghost:settles-until-stable-or-the-microstep-bound")
        c.loop(0, inv=[*KEEP_S, "self._is_processing", "iterations >= 0", "limit == root.max_iterations"],
               decreases="ite(limit - iterations + 1 > 0, limit - iterations + 1, 0)")

    @w.contract(AI + "_process_event_and_transient_transitions", props=["C04", "C01", "C05"])
    def _(c):
        # the asyncio macrostep: one event, then always-transitions until stable
        c.no_runtime = True
        c.param("event", Ev)
        c.mod(*STATE, Q, ACC, "Flag.is_set", "Trans.target_str")
        c.req(f"legal({A})", "event != None", "ghost:self._is_processing", f"wf_state({A}, self._history)", "root.max_iterations >= 0")
        KEEP_M = [f"legal({A})", "status_reach(old(self.status), self.status)", f"wf_state({A}, self._history)"]
        c.ens(*KEEP_M)
        c.ens(f"appended_only(old({Q}), old({ACC}), {Q}, {ACC})", label="ghost:queue-append-only")
        c.may_raise("Exception", ensures=[*KEEP_M, f"ghost:appended_only(old({Q}), old({ACC}), {Q}, {ACC})"])

    @w.contract(AI + "_run_event_loop", props=["C04", "C07", "C01", "C05"])
    def _(c):
        # the asyncio engine's consumer task.  Partial correctness: it is a server loop (it ends when the interpreter stops
        # running or the task is cancelled), so no termination measure is claimed.
        c.no_runtime = True
        c.nonterminating = "server loop: waits for events while the interpreter is running"
        c.mod(*STATE, Q, ACC, REM, "Flag.is_set", "Trans.target_str", "self._processing", "self._raise_depth", "self._is_processing")
        c.req(f"queue_inv({Q}, {ACC}, {REM})", f"legal({A})", f"wf_state({A}, self._history)", "root.max_iterations >= 0", "not self._is_processing")
        # for the asyncio engine the model flag `_is_processing` follows the engine's own `_processing` field
        c.after("self._processing = True", "self._is_processing = True")
        c.after("self._processing = False", "self._is_processing = False")
        c.after("event = await self._event_queue.get()", f"{REM} = append({REM}, event)", f"assert queue_inv({Q}, {ACC}, {REM})")
        c.after("await self._process_event_and_transient_transitions(event)", f"assert queue_inv({Q}, {ACC}, {REM})")
        INV = [f"queue_inv({Q}, {ACC}, {REM})", f"legal({A})", f"wf_state({A}, self._history)", "status_reach(old(self.status), self.status)",
               "not self._is_processing", "limit == root.max_iterations"]
        c.ens(*INV[:4])
        c.ens("self.status != 'running'", label="the-loop-ends-only-when-the-interpreter-no-longer-runs")
        # C07: an event whose processing fails does not end the loop - nothing but cancellation or a fatal BaseException gets out
        # (no `may_raise("Exception")`: an Exception leaving this function is a failed obligation; fatal non-Exception
        # BaseExceptions - KeyboardInterrupt, SystemExit - are outside the model)
        c.may_raise("CancelledError")
        c.loop(0, inv=INV)
        c.loop(1, inv=[*INV, "event != None"])

    @w.contract(AI + "start", props=["C14", "C05", "C01"])
    def _(c):
        c.no_runtime = True
        c.returns(w.self_sort)
        c.mod(*STATE, Q, ACC, "Flag.is_set", "Trans.target_str", "self._event_loop_task", "self._is_processing")
        c.req("valid_status(self.status)", "root.max_iterations >= 0", "not self._is_processing", f"wf_state({A}, self._history)",
              f"implies(self.status == 'uninitialized', forall[Node](lambda n: not (n in {A})))")
        # for the asyncio engine `_is_processing` is a model-only flag (A-processing): "an event / the initial entry is being processed"
        c.before("await self._enter_states([self.machine], init_event)", "self._is_processing = True")
        c.after("await self._settle_transient_transitions()", "self._is_processing = False")
        FRESH = "old(self.status) == 'uninitialized'"
        c.ens("status_reach(old(self.status), self.status) and valid_status(self.status)", label="status-edge-allowed")
        c.ens(f"implies({FRESH}, self.status != 'uninitialized' and legal({A}))", label="legal-configuration-when-start-returns")
        c.ens(f"implies(not {FRESH}, self.status == old(self.status) and set_eq({A}, old({A})) and same({Q}, old({Q})))", label="start-is-idempotent-once-started")
        c.ens("result == self", label="returns-self")
        c.may_raise("InvalidConfigError")
        c.may_raise("CancelledError")
        c.may_raise("Exception", ensures=[("a-failed-start-leaves-the-interpreter-stopped", f"implies({FRESH}, self.status == 'stopped')")])
        c.loop(0, inv=["self.status == old(self.status)", f"set_eq({A}, old({A}))", f"same({Q}, old({Q}))", f"not ({FRESH})"])
        c.loop(1, inv=["self.status == 'running'", f"forall[Node](lambda n: not (n in {A}))", f"wf_state({A}, self._history)", "not self._is_processing"])

    FIRE_MODS = ["self.status", "self.output", Q, ACC]

    def fire_clauses(c):
        c.param("final_state", Node)
        c.req("final_state != None")
        c.req("ghost:self._is_processing")
        c.ens(APP_E, label="ghost:queue-append-only")
        c.ens("status_reach(old(self.status), self.status)", label="status-moves-along-allowed-edges")
        # C10: at most one completion notice per entered final state; the machine completes only for a final child of the root
        c.ens(f"len({Q}) <= len(old({Q})) + 1", label="at-most-one-done-event-is-queued")
        c.ens("implies(final_state.parent != None and final_state.parent != root, self.status == old(self.status) and self.output == old(self.output))",
              label="only-a-final-child-of-the-root-completes-the-machine")
        c.ens(f"implies(len({Q}) == len(old({Q})) + 1, self.status == old(self.status))", label="a-done-event-and-machine-completion-exclude-each-other")
        c.may_raise("Exception", ensures=["ghost:" + APP_E, "status_reach(old(self.status), self.status)"])

    @w.contract(SI + "_check_and_fire_on_done", props=["C10"])
    def _(c):
        c.no_runtime = True
        c.mod(*FIRE_MODS)
        fire_clauses(c)
        UNTOUCHED = " and ".join(f"same({f}, old({f}))" for f in [*STATE, Q, ACC, REM, "self.g_ndiscarded", "self._is_processing"]) + \
            " and forall[Flag](lambda f: f.is_set == old(f.is_set)) and forall[Trans](lambda t: t.target_str == old(t.target_str))"
        # the walk itself writes nothing: everything happens in the iteration that returns
        c.loop(0, inv=[UNTOUCHED,
                       "ancestor == None or anc(final_state, ancestor)"],
               decreases="ite(ancestor != None, ancestor.depth + 1, 0)")

    @w.contract(BI + "_check_and_fire_on_done", props=["C10", "C05"])
    def _(c):
        c.no_runtime = True
        c.mod(*FIRE_MODS)
        fire_clauses(c)
        UNTOUCHED = " and ".join(f"same({f}, old({f}))" for f in [*FIRE_MODS])
        c.loop(0, inv=[UNTOUCHED, "ancestor == None or anc(final_state, ancestor)"],
               decreases="ite(ancestor != None, ancestor.depth + 1, 0)")

    @w.contract(SI + "start", props=["C14", "C04", "C01"])
    def _(c):
        c.no_runtime = True
        c.returns(w.self_sort)
        c.mod(*STATE, Q, ACC, REM, "self.g_ndiscarded", "self._is_processing", "Flag.is_set", "Trans.target_str")
        c.ens(f"wf_state({A}, self._history)", label="configuration-and-history-hold-states")
        c.req("valid_status(self.status)", f"queue_inv({Q}, {ACC}, {REM})", "root.max_iterations >= 0", "not self._is_processing", f"wf_state({A}, self._history)",
              f"implies(self.status == 'uninitialized', forall[Node](lambda n: not (n in {A})))",
              f"implies(self.status == 'running', legal({A}))")
        c.label_props = {"_process_transient_transitions#1": ["C04"]}
        c.ens("status_reach(old(self.status), self.status) and valid_status(self.status) and implies(old(self.status) == 'uninitialized', self.status != 'uninitialized')",
              label="status-edge-allowed")
        c.ens(f"implies(old(self.status) != 'uninitialized', self.status == old(self.status) and set_eq({A}, old({A})) and seq_eq({Q}, old({Q})))", label="start-is-idempotent-once-started")
        c.ens(f"implies(old(self.status) == 'uninitialized', legal({A}) and not self._is_processing)", label="legal-configuration-when-start-returns")
        c.ens(f"queue_inv({Q}, {ACC}, {REM})", label="fifo-nothing-lost-or-duplicated-in-the-queue")
        c.ens("result == self", label="returns-self")
        c.may_raise("InvalidConfigError")            # a stopped interpreter is refused; so is a machine whose entry fails
        c.may_raise("Exception")
        c.after("self.status = 'running'", "assert True")

"""C14 (lifecycle) and C04 (queue) contracts."""
from pyvc.sorts import BOOL, INT, STR, ListSort, SetSort, OPAQUE
from specs.xsm import Node, Trans, Ev

BI = "xstate_statemachine.base_interpreter:BaseInterpreter."
SI = "xstate_statemachine.sync_interpreter:SyncInterpreter."
AI = "xstate_statemachine.interpreter:Interpreter."


def register(w):
    # allowed status edges, verbatim from the statement:
    #   uninitialized -> running -> (done | error) -> stopped   (or running -> stopped)
    w.macro("status_step", ["a", "b"],
            "a == b or (a == 'uninitialized' and b == 'running') or (a == 'running' and (b == 'done' or b == 'error' or b == 'stopped'))"
            " or ((a == 'done' or a == 'error') and b == 'stopped')")

    # reflexive-transitive closure of the allowed edges (what a whole macrostep may do to the status)
    w.macro("status_reach", ["a", "b"],
            "a == b or (a == 'uninitialized' and valid_status(b)) or (a == 'running' and (b == 'done' or b == 'error' or b == 'stopped'))"
            " or ((a == 'done' or a == 'error') and b == 'stopped')")
    w.macro("valid_status", ["s"], "s == 'uninitialized' or s == 'running' or s == 'done' or s == 'error' or s == 'stopped'")

    @w.contract(BI + "_notify_subscribers", props=["C07", "C14"])
    def _(c):
        # a raising subscriber changes nothing at all: no exception escapes, no field is written
        pass

    @w.contract(BI + "_emit", props=["C07"])
    def _(c):
        c.param("event", Ev)
        c.req("event != None")

    @w.contract(BI + "_fail", props=["C14", "C09"])
    def _(c):
        c.param("error", OPAQUE)
        c.req("self.status != 'uninitialized'")     # carried to every call site (an interpreter that was never started cannot fail)
        c.mod("self.status", "self.error")
        c.ens("status_step(old(self.status), self.status)", label="status-edge-allowed")
        c.ens("implies(old(self.status) == 'running', self.status == 'error' and self.error == error)", label="running-fails-to-error")
        c.ens("implies(old(self.status) != 'running', self.status == old(self.status) and self.error == old(self.error))", label="terminal-status-untouched")

    @w.contract(BI + "_complete", props=["C14", "C10"])
    def _(c):
        c.param("output", OPAQUE)
        c.mod("self.status", "self.output")
        c.ens("status_step(old(self.status), self.status)", label="status-edge-allowed")
        c.ens("implies(old(self.status) == 'running', self.status == 'done' and self.output == output)", label="running-completes-to-done")
        c.ens("implies(old(self.status) != 'running', self.status == old(self.status) and self.output == old(self.output))", label="complete-only-once")


    @w.contract(BI + "_unregister_children_from_system", props=["C15"])
    def _(c):
        c.trusted = "assumed frame: edits the ROOT interpreter's system registry only (bounded: C15 driver checks the registry after stopChild / stop)"

    @w.contract(SI + "stop", props=["C14", "C08"])
    def _(c):
        c.no_runtime = True
        AE, PSC = "self._after_events", "self._pending_send_cancels"
        c.mod("self.status", "self._actors", AE, "self._after_threads", PSC, "self._scheduled_sends", "Flag.is_set")
        c.req("valid_status(self.status)")
        ACTIVE = "(old(self.status) != 'uninitialized' and old(self.status) != 'stopped')"
        c.ens("status_step(old(self.status), self.status)", label="status-edge-allowed")
        c.ens(f"implies(not {ACTIVE}, self.status == old(self.status) and len({AE}) == len(old({AE})) and len(self._actors) == len(old(self._actors)))", label="stop-is-idempotent")
        c.ens(f"implies({ACTIVE}, self.status == 'stopped')", label="stopped-afterwards")
        c.ens(f"implies({ACTIVE}, len(self._actors) == 0 and len({AE}) == 0 and len(self._after_threads) == 0 and len(self._scheduled_sends) == 0)", label="no-actor-timer-or-delayed-send-left")
        c.ens(f"implies({ACTIVE}, forall[Flag](lambda f: not (f in {PSC})))", label="no-pending-send-left")
        c.ens(f"implies({ACTIVE}, forall[str](lambda k: implies(k in old({AE}), old({AE})[k].is_set)))", label="every-timer-flag-set")
        c.ens(f"implies({ACTIVE}, forall[Flag](lambda f: implies(f in old({PSC}), f.is_set)))", label="every-delayed-send-flag-set")
        SEEN = "forall[str](lambda k: (k in self._actors) == (k in old(self._actors) and not exists[int](lambda j: 0 <= j and j < _i and keys(old(self._actors))[j] == k)))"
        MONO = "forall[Flag](lambda f: implies(old(f.is_set), f.is_set))"
        c.loop(0, inv=[SEEN, "self.status == 'stopped'"])
        c.loop(1, inv=[f"forall[int](lambda j: implies(0 <= j and j < _i, {AE}[keys({AE})[j]].is_set))", MONO, f"len({AE}) == len(old({AE}))",
                       f"forall[str](lambda k: (k in {AE}) == (k in old({AE})) and implies(k in {AE}, {AE}[k] == old({AE})[k]))", "len(self._actors) == 0", "self.status == 'stopped'"])
        c.loop(2, inv=["forall[int](lambda j: implies(0 <= j and j < _i, _seq[j].is_set))", MONO,
                       f"forall[str](lambda k: implies(k in old({AE}), old({AE})[k].is_set))", "self.status == 'stopped'",
                       f"len(self._actors) == 0 and len({AE}) == 0 and len(self._after_threads) == 0"])
        c.loop(3, inv=["self.status == 'stopped'", f"len(self._actors) == 0 and len({AE}) == 0 and len(self._after_threads) == 0 and len(self._scheduled_sends) == 0",
                       f"forall[Flag](lambda f: not (f in {PSC}))", f"forall[str](lambda k: implies(k in old({AE}), old({AE})[k].is_set))",
                       f"forall[Flag](lambda f: implies(f in old({PSC}), f.is_set))"])

    AI = "xstate_statemachine.interpreter:Interpreter."

    @w.contract(AI + "stop", props=["C14", "C05"])
    def _(c):
        # the asyncio engine's stop(): same lifecycle clauses as the sync one; its timers / services live in the TaskManager
        # (cancel_all, outside the modelled state), the queue consumer task is cancelled and awaited
        c.no_runtime = True
        c.mod("self.status", "self._actors", "self._event_loop_task")
        c.req("valid_status(self.status)")
        ACTIVE = "(old(self.status) != 'uninitialized' and old(self.status) != 'stopped')"
        c.ens("status_step(old(self.status), self.status)", label="status-edge-allowed")
        c.ens(f"implies(not {ACTIVE}, self.status == old(self.status) and len(self._actors) == len(old(self._actors)))", label="stop-is-idempotent")
        c.ens(f"implies({ACTIVE}, self.status == 'stopped')", label="stopped-afterwards")
        c.ens(f"implies({ACTIVE}, len(self._actors) == 0 and self._event_loop_task == None)", label="no-actor-or-consumer-task-left")
        c.loop(0, inv=["self.status == 'stopped'"])
        c.loop(1, inv=["self.status == 'stopped'", "same(self._actors, old(self._actors))"])

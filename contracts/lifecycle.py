"""C14 (lifecycle) and C04 (queue) contracts."""
from pyvc.sorts import BOOL, INT, STR, ListSort, SetSort, OPAQUE
from specs.xsm import Node, Trans, Ev

BI = "xstate_statemachine.base_interpreter:BaseInterpreter."
SI = "xstate_statemachine.sync_interpreter:SyncInterpreter."
AI = "xstate_statemachine.interpreter:Interpreter."


def register(w):
    # allowed status edges, verbatim from the statement:
    #   uninitialized -> running -> (done | error) -> stopped   (or running -> stopped)
    w.macro("status_step", ["a", "b"],
            "a == b or (a == 'uninitialized' and b == 'running') or (a == 'running' and (b == 'done' or b == 'error' or b == 'stopped'))"
            " or ((a == 'done' or a == 'error') and b == 'stopped')")

    @w.contract(BI + "_notify_subscribers", props=["C07", "C14"])
    def _(c):
        # a raising subscriber changes nothing at all: no exception escapes, no field is written
        pass

    @w.contract(BI + "_emit", props=["C07"])
    def _(c):
        c.param("event", Ev)
        c.req("event != None")

    @w.contract(BI + "_fail", props=["C14", "C09"])
    def _(c):
        c.param("error", OPAQUE)
        c.req("self.status != 'uninitialized'")     # carried to every call site (an interpreter that was never started cannot fail)
        c.mod("self.status", "self.error")
        c.ens("status_step(old(self.status), self.status)", label="status-edge-allowed")
        c.ens("implies(old(self.status) == 'running', self.status == 'error' and self.error == error)", label="running-fails-to-error")
        c.ens("implies(old(self.status) != 'running', self.status == old(self.status) and self.error == old(self.error))", label="terminal-status-untouched")

    @w.contract(BI + "_complete", props=["C14", "C10"])
    def _(c):
        c.param("output", OPAQUE)
        c.mod("self.status", "self.output")
        c.ens("status_step(old(self.status), self.status)", label="status-edge-allowed")
        c.ens("implies(old(self.status) == 'running', self.status == 'done' and self.output == output)", label="running-completes-to-done")
        c.ens("implies(old(self.status) != 'running', self.status == old(self.status) and self.output == old(self.output))", label="complete-only-once")

"""The logical world of xstate-statemachine: class schemas, tree/id theory,
event model, models of external (user / library) calls.

Everything in here is *specification*: it is either checked (axioms marked
`lean:` are re-proved in /verif/lean, `bounded:` ones are validated against
the real constructors by the bounded layer) or listed as an assumption in every
evidence file.
"""
from __future__ import annotations

import z3

from pyvc.sorts import (BOOL, INT, OPAQUE, STR, DictSort, ListSort, OptSort,
                        Ref, SetSort, Val, fresh, vbool, vint, vstr, mk)
from pyvc.state import ExcVal, Outcome, Unsupported
from pyvc.world import World

Node, Trans, Guard, Act, Inv, Ev, Interp = (Ref(n) for n in
                                            ("Node", "Trans", "Guard", "Act", "Inv", "Event", "Interp"))
Plugin, Callable_ = Ref("Plugin"), Ref("Callable")

EV_PLAIN, EV_DONE, EV_AFTER = 0, 1, 2


def build_world() -> World:
    w = World()
    # ------------------------------------------------------------------ classes
    w.cls("Node", "StateNode", "MachineNode")
    w.cls("Trans", "TransitionDefinition")
    w.cls("Guard", "GuardDefinition")
    w.cls("Act", "ActionDefinition")
    w.cls("Inv", "InvokeDefinition")
    w.cls("Event", "Event", "AfterEvent", "DoneEvent")
    w.cls("Interp", "BaseInterpreter", "SyncInterpreter", "Interpreter")
    w.cls("Plugin", "PluginBase", "_SafePlugin")
    w.cls("Callable")
    w.cls("Logic", "MachineLogic")
    w.cls("Flag")            # threading.Event used as a cancellation flag
    w.cls("Opaque")

    f = w.fld
    f("Node", "parent", Node)
    f("Node", "machine", Node)
    f("Node", "depth", INT)
    f("Node", "id", STR)
    f("Node", "key", STR)
    f("Node", "type", STR)
    f("Node", "initial", OptSort(STR))
    f("Node", "history", OptSort(STR))
    f("Node", "target_str", OptSort(STR))
    f("Node", "states", DictSort(STR, Node))
    f("Node", "on", DictSort(STR, ListSort(Trans)))
    f("Node", "on_done", Trans)
    f("Node", "after", DictSort(OPAQUE, ListSort(Trans)))
    f("Node", "invoke", ListSort(Inv))
    f("Node", "entry", ListSort(Act))
    f("Node", "exit", ListSort(Act))
    f("Node", "output", OPAQUE)
    f("Node", "max_iterations", INT)
    f("Node", "logic", Ref("Logic"))
    f("Node", "machine_output", OPAQUE)
    f("Logic", "actions", DictSort(STR, Callable_))       # MachineLogic.actions: name -> user callable
    f("Logic", "services", DictSort(STR, OPAQUE))
    f("Logic", "guards", DictSort(STR, Callable_))        # MachineLogic.guards: name -> user predicate
    w.inline_prop("Node", "is_final", "xstate_statemachine.models", "StateNode.is_final")
    w.inline_prop("Node", "is_atomic", "xstate_statemachine.models", "StateNode.is_atomic")

    f("Trans", "source", Node)
    f("Trans", "event", STR)
    f("Trans", "target_str", OptSort(STR), mutable=True)
    f("Trans", "actions", ListSort(Act))
    f("Trans", "guard_def", Guard)
    f("Trans", "reenter", BOOL)
    f("Trans", "forbidden", BOOL)

    f("Guard", "type", STR)
    f("Guard", "params", OPAQUE)
    f("Guard", "children", ListSort(Guard))
    f("Guard", "is_composite", BOOL)
    f("Guard", "is_state_in", BOOL)

    f("Act", "type", STR)
    f("Act", "params", OPAQUE)

    f("Inv", "id", STR)
    f("Inv", "src", OptSort(STR))
    f("Inv", "input", OPAQUE)
    f("Inv", "on_done", ListSort(Trans))
    f("Inv", "on_error", ListSort(Trans))
    f("Inv", "source", Node)

    f("Flag", "is_set", BOOL, mutable=True)
    f("Event", "type", STR)
    f("Event", "kind", INT)
    f("Event", "src", STR)
    f("Event", "data", OPAQUE)
    f("Event", "payload", OPAQUE)

    # ------------------------------------------------------------------ interpreter state
    s = w.selffld
    s("status", STR)
    s("_active_state_nodes", SetSort(Node))
    s("_history", DictSort(STR, ListSort(Node)))
    s("context", OPAQUE)
    s("output", OPAQUE)
    s("error", OPAQUE)
    s("_action_depth", INT)
    s("_is_processing", BOOL)
    s("_plugins", ListSort(Plugin))
    s("_subscribers", ListSort(Callable_))
    s("_emit_listeners", DictSort(STR, ListSort(Callable_)))
    s("_after_events", DictSort(STR, Ref("Flag")))      # sync engine: timer key -> cancellation flag
    s("_after_threads", DictSort(STR, OPAQUE))
    s("_pending_send_cancels", SetSort(Ref("Flag")))
    s("_scheduled_sends", DictSort(STR, Callable_))
    s("_actors", DictSort(STR, Interp))
    s("_processing", BOOL)                    # asyncio engine: an event is being processed (its counterpart of _is_processing)
    s("_raise_depth", INT)                    # asyncio engine: chained self-raised events since the last external one
    s("task_manager", OPAQUE)                 # asyncio engine: TaskManager (timers / services as asyncio tasks) - not modelled
    s("_event_loop_task", OPAQUE)             # asyncio engine: the consumer task of the event queue
    s("_event_queue", ListSort(Ev))            # collections.deque, modelled as a list (append / popleft / clear)
    # ghost state of C04 (exists only in verification conditions):
    s("g_accepted", ListSort(Ev))              # every event accepted by send()/send_events() while running, in order
    s("g_removed", ListSort(Ev))               # every event taken off the queue front (processed or discarded), in order
    s("g_ndiscarded", INT)                     # how many of those were discarded without being processed

    # ------------------------------------------------------------------ exceptions
    e = w.exc
    e("BaseException", None)
    e("Exception", "BaseException")
    e("CancelledError", "BaseException")
    e("XStateMachineError", "Exception")
    for n in ("InvalidConfigError", "StateNotFoundError", "ImplementationMissingError",
              "ActorSpawningError", "NotSupportedError", "RestoredError"):
        e(n, "XStateMachineError")
    for n in ("TypeError", "KeyError", "AttributeError", "ValueError", "IndexError",
              "RuntimeError", "StopIteration", "UserExc", "FactoryExc"):
        e(n, "Exception")          # UserExc: whatever a user callable raises; FactoryExc: whatever an actor factory raises
    e("JSONDecodeError", "ValueError")

    # ------------------------------------------------------------------ tree theory T
    root = z3.Const("root", Node.z)
    w.consts["root"] = Val(Node, (root,))
    w.consts["BUILTIN_ACTION_ALIASES"] = fresh(DictSort(STR, STR), "BUILTIN_ACTION_ALIASES")   # actions.py module table (uninterpreted)
    w.self_consts = {"machine": Val(Node, (root,))}      # self.machine is the root of the state tree
    w.fn("anc", [Node, Node], BOOL)          # reflexive-transitive ancestor: anc(n, a) <=> a is n or an ancestor of n
    ax = w.axiom
    ax("T-root", "root != None and root.parent == None and root.depth == 0", "definition")
    ax("T-depth", "forall[Node](lambda n: implies(n != None and n.parent != None, n.depth == n.parent.depth + 1), lambda n: n.parent.depth)", "bounded:StateNode.__init__ line `self.depth = parent.depth + 1 if parent else 0`")
    ax("T-depth-b", "forall[Node](lambda n: implies(n != None and n.parent != None, n.depth == n.parent.depth + 1), lambda n: (n.parent, n.depth))",
       "bounded:StateNode.__init__ line `self.depth = parent.depth + 1 if parent else 0` (T-depth again, triggered by the pair of terms parent(n), depth(n); creates no parent(parent(..)) term)")
    ax("T-depth-nonneg", "forall[Node](lambda n: implies(n != None, n.depth >= 0), lambda n: n.depth)", "lean:depth_nonneg")
    ax("T-anc-def", "forall[Node, Node](lambda n, a: anc(n, a) == (n != None and (n == a or anc(n.parent, a))), lambda n, a: anc(n, a))", "definition")
    ax("T-anc-refl", "forall[Node](lambda n: implies(n != None, anc(n, n)), lambda n: anc(n, n))", "lean:anc_refl")
    ax("T-anc-parent", "forall[Node](lambda n: implies(n != None and n.parent != None, anc(n, n.parent)), lambda n: n.parent)", "lean:anc_parent")
    ax("T-anc-step", "forall[Node, Node](lambda n, a: implies(anc(n, a) and a.parent != None, anc(n, a.parent)), lambda n, a: (anc(n, a), a.parent))", "lean:anc_step")
    ax("T-parent-neq", "forall[Node](lambda n: implies(n != None, n.parent != n), lambda n: n.parent)", "lean:parent_ne_self")
    ax("T-root-unique", "forall[Node](lambda n: implies(n != None and n.parent == None, n == root), lambda n: n.parent)", "lean:root_unique")
    ax("T-anc-root", "forall[Node](lambda n: implies(n != None, anc(n, root)), lambda n: anc(n, root))", "bounded:every StateNode of a machine reaches the MachineNode by .parent")
    ax("T-anc-depth", "forall[Node, Node](lambda n, a: implies(anc(n, a), a != None and a.depth <= n.depth and implies(a.depth == n.depth, a == n)), lambda n, a: anc(n, a))", "lean:anc_depth")
    ax("T-anc-trans", "forall[Node, Node, Node](lambda n, a, b: implies(anc(n, a) and anc(a, b), anc(n, b)), lambda n, a, b: (anc(n, a), anc(a, b)))", "lean:anc_trans")
    ax("T-anc-linear", "forall[Node, Node, Node](lambda n, a, b: implies(anc(n, a) and anc(n, b), anc(a, b) or anc(b, a)), lambda n, a, b: (anc(n, a), anc(n, b)))", "lean:anc_linear")

    # definition objects of a built machine (A-tree: constructed by StateNode.__init__ / create_machine): lists of definitions hold objects
    ax("D-logic", "root.logic != None", "bounded:MachineNode.__init__ stores the MachineLogic that create_machine builds or receives")
    ax("D-exit-nonnull", "forall[Node, int](lambda n, i: implies(n != None and 0 <= i and i < len(n.exit), n.exit[i] != None), lambda n, i: n.exit[i])", "bounded:StateNode.__init__ builds exit from ActionDefinition(...) constructor calls")
    ax("D-entry-nonnull", "forall[Node, int](lambda n, i: implies(n != None and 0 <= i and i < len(n.entry), n.entry[i] != None), lambda n, i: n.entry[i])", "bounded:StateNode.__init__ builds entry from ActionDefinition(...) constructor calls")
    ax("D-actions-nonnull", "forall[Trans, int](lambda t, i: implies(t != None and 0 <= i and i < len(t.actions), t.actions[i] != None), lambda t, i: t.actions[i])", "bounded:TransitionDefinition.__init__ builds actions from ActionDefinition(...) constructor calls")

    ax("D-states-nonnull", "forall[Node, str](lambda n, k: implies(n != None and k in n.states, n.states[k] != None and n.states[k].parent == n), lambda n, k: n.states[k])",
       "bounded:StateNode.__init__ builds states from StateNode(...) constructor calls with parent=self")

    ax("D-states-wf", "forall[Node, int](lambda n, i: implies(n != None and 0 <= i and i < len(n.states), keys(n.states)[i] in n.states), lambda n, i: keys(n.states)[i])",
       "definition (python dict: every enumerated key is a key of the dict)")
    ax("D-states-wf2", "forall[Node, str](lambda n, k: implies(n != None and k in n.states, 0 <= keyidx(n.states, k) and keyidx(n.states, k) < len(n.states) and keys(n.states)[keyidx(n.states, k)] == k), lambda n, k: k in n.states)",
       "definition (python dict: every key of the dict is enumerated)")
    ax("D-states-wf3", "forall[Node, int](lambda n, i: implies(n != None and 0 <= i and i < len(n.states), keyidx(n.states, keys(n.states)[i]) == i), lambda n, i: keys(n.states)[i])",
       "definition (python dict: the enumerated keys are pairwise distinct)")
    ax("D-states-len", "forall[Node](lambda n: implies(n != None, len(n.states) >= 0), lambda n: len(n.states))", "definition (python dict: a length is not negative)")

    # height(n): length of the longest path below n - exists because the tree is finite (A-tree); used as termination measure of
    # the recursive entry routine
    w.fn("height", [Node], INT)
    ax("T-height", "forall[Node](lambda n: implies(n != None, height(n) >= 0 and height(n) <= height(root)), lambda n: height(n))",
       "assumed: the state tree is finite (A-tree), so every node has a height, at most the root's")
    # the multi-pattern keeps instantiation from creating height(parent(parent(...))) terms for ever (a matching loop)
    ax("T-height-step", "forall[Node](lambda n: implies(n != None and n.parent != None, height(n) < height(n.parent)), lambda n: (height(n), height(n.parent)))",
       "assumed: the state tree is finite (A-tree), so every node has a height, smaller than its parent's and at most the root's")

    # ---- where transitions live: every TransitionDefinition stored on a state has that state as its source
    ax("D-on-source", "forall[Node, str, int](lambda n, k, i: implies(n != None and k in n.on and 0 <= i and i < len(n.on[k]), n.on[k][i] != None and n.on[k][i].source == n), lambda n, k, i: n.on[k][i])",
       "bounded:StateNode.__init__ builds every `on` entry with TransitionDefinition(..., source=self)")
    ax("D-ondone-source", "forall[Node](lambda n: implies(n != None and n.on_done != None, n.on_done.source == n), lambda n: n.on_done)",
       "bounded:StateNode.__init__ builds onDone with source=self")
    ax("D-after-source", "forall[Node, Opaque, int](lambda n, k, i: implies(n != None and k in n.after and 0 <= i and i < len(n.after[k]), n.after[k][i] != None and n.after[k][i].source == n), lambda n, k, i: n.after[k][i])",
       "bounded:StateNode.__init__ builds every `after` entry with source=self")
    ax("D-after-wf", "forall[Node, int](lambda n, i: implies(n != None and 0 <= i and i < len(n.after), keys(n.after)[i] in n.after), lambda n, i: keys(n.after)[i])",
       "definition (python dict: every enumerated key is a key of the dict)")
    ax("D-after-wf2", "forall[Node, Opaque](lambda n, k: implies(n != None and k in n.after, 0 <= keyidx(n.after, k) and keyidx(n.after, k) < len(n.after) and keys(n.after)[keyidx(n.after, k)] == k), lambda n, k: k in n.after)",
       "definition (python dict: every key of the dict is enumerated)")
    ax("D-invoke-source", "forall[Node, int](lambda n, i: implies(n != None and 0 <= i and i < len(n.invoke), n.invoke[i] != None and n.invoke[i].source == n), lambda n, i: n.invoke[i])",
       "bounded:StateNode.__init__ builds InvokeDefinition(..., source=self)")
    ax("D-invoke-ondone-source", "forall[Inv, int](lambda v, i: implies(v != None and 0 <= i and i < len(v.on_done), v.on_done[i] != None and v.on_done[i].source == v.source), lambda v, i: v.on_done[i])",
       "bounded:InvokeDefinition.__init__ builds onDone transitions with the invoking state as source")
    ax("D-invoke-onerror-source", "forall[Inv, int](lambda v, i: implies(v != None and 0 <= i and i < len(v.on_error), v.on_error[i] != None and v.on_error[i].source == v.source), lambda v, i: v.on_error[i])",
       "bounded:InvokeDefinition.__init__ builds onError transitions with the invoking state as source")

    # whether a declared delay resolves to a number (BaseInterpreter._resolve_delay; a function of the declaration and the context)
    w.fn("rdelay_ok", [OPAQUE, OPAQUE], BOOL)

    # ---- guard definitions (C06): a finite tree of GuardDefinition objects
    w.fn("gsize", [Guard], INT)
    ax("D-guard-wf", "forall[Guard](lambda g: implies(g != None, gsize(g) >= 0 and len(g.children) >= 0 "
       "and implies(g.is_composite, (g.type == 'and' or g.type == 'or' or g.type == 'not') and len(g.children) >= 1)), lambda g: gsize(g))",
       "bounded:GuardDefinition.__init__ rejects a composite guard without operands and a 'not' without exactly one")
    ax("D-guard-wf2", "forall[Guard](lambda g: implies(g != None and g.is_composite, (g.type == 'and' or g.type == 'or' or g.type == 'not') and len(g.children) >= 1), lambda g: g.is_composite)",
       "bounded:GuardDefinition.__init__ (same fact, triggered by the composite test)")
    ax("D-guard-children", "forall[Guard, int](lambda g, i: implies(g != None and 0 <= i and i < len(g.children), g.children[i] != None and gsize(g.children[i]) < gsize(g)), lambda g, i: g.children[i])",
       "bounded:GuardDefinition.__init__ builds children from GuardDefinition(...) constructor calls (a finite tree)")
    # what calling a user predicate yields: A-guard-pure - during one evaluation a predicate's outcome (truth value, or raising)
    # is a function of the predicate, the event and the context it is given
    w.fn("ucall_truth", [Callable_, Ev, OPAQUE], BOOL)
    w.fn("ucall_raises", [Callable_, Ev, OPAQUE], BOOL)
    w.fn("praises", [OPAQUE, Ev, OPAQUE], BOOL)          # resolving (possibly computed) params raises
    # the built-in stateIn test (BaseInterpreter._is_state_in: string matching over the active configuration; bounded.c06)
    w.fn("stin", [Guard, Ev, SetSort(Node)], BOOL)
    # gmiss(g): evaluating g may need a predicate that is not implemented; gval(g, ev, A, ctx): the value of g when nothing is missing
    w.fn("gmiss", [Guard], BOOL)
    w.fn("gval", [Guard, Ev, SetSort(Node), OPAQUE], BOOL)
    LEAF_BUILTIN = "(g.is_state_in and not (g.type in root.logic.guards))"
    ax("G-miss", "forall[Guard](lambda g: implies(g != None, gmiss(g) == ite(g.is_composite, "
       "ite(g.type == 'not', gmiss(g.children[0]), exists[int](lambda i: 0 <= i and i < len(g.children) and gmiss(g.children[i]))), "
       f"not {LEAF_BUILTIN} and (not (g.type in root.logic.guards) or root.logic.guards[g.type] == None))), lambda g: gmiss(g))",
       "definition (from the C06 statement: a guard that is named but not implemented)")
    ax("G-val", "forall[Guard, Event, NodeSet, Opaque](lambda g, e, A, c: implies(g != None, gval(g, e, A, c) == ite(g.is_composite, "
       "ite(g.type == 'and', forall[int](lambda i: implies(0 <= i and i < len(g.children), gval(g.children[i], e, A, c))), "
       "ite(g.type == 'or', exists[int](lambda i: 0 <= i and i < len(g.children) and gval(g.children[i], e, A, c)), "
       "not gval(g.children[0], e, A, c))), "
       f"ite({LEAF_BUILTIN}, stin(g, e, A), not praises(g.params, e, c) and not ucall_raises(root.logic.guards[g.type], e, c) and ucall_truth(root.logic.guards[g.type], e, c)))), "
       "lambda g, e, A, c: gval(g, e, A, c))",
       "definition (from the C06 statement: and/or/not with ordinary boolean meaning at any depth; a predicate that raises counts as false)")

    ax("D-states-complete", "forall[Node](lambda c: implies(c != None and c.parent != None, c.key in c.parent.states and c.parent.states[c.key] == c), lambda c: c.parent)",
       "bounded:StateNode.__init__ stores every child under its key in the parent's `states`")
    ax("D-states-key", "forall[Node, str](lambda n, k: implies(n != None and k in n.states, n.states[k].key == k), lambda n, k: n.states[k])",
       "bounded:StateNode.__init__ gives the child stored under key k the key k")
    ax("D-initial-not-history", "forall[Node, str](lambda n, k: implies(n != None and n.initial == k and k in n.states, n.states[k].type != 'history'), lambda n, k: n.states[k])",
       "bounded:StateNode._parse_initial rejects an explicit `initial` that names a history pseudo-state (fix: section 6) and never infers one")
    ax("D-history-leaf", "forall[Node](lambda c: implies(c != None and c.parent != None, c.parent.type != 'history'), lambda c: c.parent)",
       "bounded:a history pseudo-state has no child states (StateNode.__init__ builds children only for compound / parallel configs)")
    ax("D-root-type", "root.type != 'history'", "bounded:MachineNode is never a history pseudo-state")

    # child_toward(d, t): the child of d on the path down to t (defined when t is a proper descendant of d)
    w.fn("child_toward", [Node, Node], Node)
    ax("T-child-toward", "forall[Node, Node](lambda d, t: implies(anc(t, d) and t != d, child_toward(d, t) != None and child_toward(d, t).parent == d and anc(t, child_toward(d, t))), lambda d, t: child_toward(d, t))",
       "lean:child_toward_exists")

    # ------------------------------------------------------------------ id theory I
    # id(root) = key(root), id(n) = id(parent n) + "." + key(n)  (models.py: `self.id = f"{parent.id}.{key}" if parent else key`).
    # The only consequence the interpreter relies on is the prefix test of _is_descendant / _compute_states_to_exit:
    #   S2:  id(n).startswith(id(a) + ".")  <=>  a is a PROPER ancestor of n          (needs: no '.' inside state keys)
    # `idprefix(n, a)` names exactly the term  id(n).startswith(id(a) + ".")  (see str_method_hook: any other
    # string test - e.g. one that drops the "." - is NOT given this meaning and stays a raw string formula).
    w.fn("idprefix", [Node, Node], BOOL)
    ax("I-S2", "forall[Node, Node](lambda n, a: implies(n != None and a != None, idprefix(n, a) == (anc(n, a) and n != a)), lambda n, a: idprefix(n, a))",
       "assumed under nodot_keys (string induction over the id construction); bounded: validated on every generated machine; dotted keys are a known finding (C12)")

    ax("I-inj", "forall[Node, Node](lambda a, b: implies(a != None and b != None and a.id == b.id, a == b), lambda a, b: (a.id, b.id))",
       "assumed under nodot_keys (ids are the key paths from the root; sibling keys are distinct dict keys); bounded: validated on every generated machine")

    def str_method_hook(eng, st, recv, name, args):
        idf = w.classes["Node"].fields["id"].fns[0]
        if name == "startswith" and len(args) == 1 and isinstance(args[0], Val) and args[0].sort == STR:
            r, a = recv.z, args[0].z
            if z3.is_app(r) and r.decl().eq(idf) and z3.is_app(a) and a.decl().kind() == z3.Z3_OP_SEQ_CONCAT and a.num_args() == 2:
                x, dot = a.arg(0), a.arg(1)
                if z3.is_app(x) and x.decl().eq(idf) and z3.is_string_value(dot) and dot.as_string() == ".":
                    n_, a_ = r.arg(0), x.arg(0)
                    p = w.specfns["idprefix"].fn(n_, a_)
                    st.assume(p == z3.PrefixOf(a, r))
                    return vbool(p)
        return None
    w.str_method_hook = str_method_hook

    w.assume("A-tree: every StateNode value handled by a verified function belongs to the tree of self.machine "
             "(single finite parent-pointer tree rooted at the MachineNode); StateNode.__init__'s recursive "
             "construction of that tree is validated by the bounded layer, not proved")

    w.assume("A-user: a user-supplied callable (guard, subscriber, emit listener, plugin hook body, service) may return anything or raise "
             "any Exception that is not a library error, and does not write the interpreter's private fields")
    w.assume("A-user-action: a user ACTION may in addition write context and call the interpreter's public API re-entrantly: send() - "
             "which only appends while an event is being processed (proved: SyncInterpreter.send) - and stop() (status moves along an allowed "
             "edge, timer/actor tables may be emptied); it never writes the configuration or the history directly")
    w.assume("A-processing: `_is_processing` is a real field of SyncInterpreter; for the asyncio Interpreter it is a model-only flag meaning "
             "'an event is being processed' (async send() never processes inline, it only enqueues)")
    w.assume("A-seq: one thread of control at a time runs interpreter code (timer threads / asyncio tasks enter through send()); "
             "`async`/`await` keywords are dropped by the extraction")
    w.assume("A-log: logger calls are effect-free (their arguments are checked to contain no calls other than attribute reads)")
    w.assume("A-actors: another interpreter (child or parent actor) never writes this interpreter's private fields; it reaches it through send()")
    w.assume("A-uuid: a string embedding a fresh uuid4 differs from every string that existed before")
    w.assume("A-guard-pure: while one guard expression is evaluated, a user predicate's outcome (truth value or raising) is a function of "
             "the predicate, the event and the context (the library itself memoises guards per selection pass on that assumption)")
    w.assume("A-int: python integers are mathematical integers (exact in python); strings are z3/cvc5 sequences of unicode code points")

    # ------------------------------------------------------------------ hooks
    def annotation_hook(txt):
        m = {"StateNode": Node, "Optional[StateNode]": Node, "'StateNode'": Node,
             "TransitionDefinition": Trans, "GuardDefinition": Guard,
             "ActionDefinition": Act, "InvokeDefinition": Inv, "Any": OPAQUE}
        return m.get(txt)
    w.annotation_hook = annotation_hook

    def isinstance_hook(eng, v, names):
        if isinstance(v, Val) and v.sort == Ev:
            kinds = {"Event": EV_PLAIN, "DoneEvent": EV_DONE, "AfterEvent": EV_AFTER}
            ks = [kinds[n] for n in names if n in kinds]
            kf = w.classes["Event"].fields["kind"].fns[0]
            return z3.And(v.z != Ev.null, z3.Or(*[kf(v.z) == k for k in ks])) if ks else z3.BoolVal(False)
        return None
    w.isinstance_hook = isinstance_hook

    def external_hook(eng, node, st, name, recv, args, kw):
        # Plugin hooks: `_SafePlugin.__getattr__` wraps every hook so that it
        # neither raises nor (A-user) writes interpreter-private state.
        if isinstance(recv, Val) and recv.sort == Plugin:
            return [(st, fresh(OPAQUE, "hookret"))]
        if name == "uuid.uuid4":
            u = fresh(OPAQUE, "uuid")
            eng.uuid_terms = getattr(eng, "uuid_terms", []) + [u.z]
            return [(st, u)]
        if name == "threading.Event":
            fl = fresh(Ref("Flag"), "flag")
            st.assume(fl.z != Ref("Flag").null)
            arr = st.heap[("Flag", "is_set")]
            st.assume(z3.Not(z3.Select(arr.t[0], fl.z)))
            # a new object: not among the values of any modelled flag table
            for loc, hv in st.heap.items():
                if isinstance(hv, Val) and isinstance(hv.sort, DictSort) and hv.sort.val == Ref("Flag"):
                    k = z3.Const("fk", hv.sort.key.z)
                    st.assume(z3.ForAll([k], z3.Implies(z3.Select(hv.t[2], k), z3.Select(hv.t[3], k) != fl.z)))
            return [(st, fl)]
        if name == "inspect.isawaitable":
            return [(st, fresh(BOOL, "isaw"))]
        if name == "inspect.iscoroutinefunction":
            return [(st, fresh(BOOL, "iscoro"))]       # a total, effect-free test of a python callable (outside the modelled value domain)
        if name == "threading.Thread":
            return [(st, fresh(OPAQUE, "thread"))]     # the thread BODY is a concurrent entry point, not executed here (A-seq)
        if name in ("<Opaque>.start", "<Opaque>.cancel", "<Opaque>.cancel_all", "<Opaque>.done"):
            # thread / asyncio task / TaskManager handles: opaque objects outside the modelled state; cancel_all() gathers its
            # tasks with return_exceptions (task_manager.py), so awaiting it does not raise
            return [(st, fresh(OPAQUE, "none"))]
        if name == "<Flag>.set" and isinstance(recv, Val):
            arr = st.heap[("Flag", "is_set")]
            eng.write_heap(st, ("Flag", "is_set"), Val(arr.sort, (z3.Store(arr.t[0], recv.z, z3.BoolVal(True)),)))
            return [(st, fresh(OPAQUE, "none"))]
        # another interpreter (child / parent actor): A-actors - it never writes THIS interpreter's private
        # fields; what it sends back arrives through send() (queue), which stop()/start() of a child do not do
        if isinstance(recv, Val) and recv.sort == Interp and name in ("<Interp>.stop", "<Interp>.start"):
            return [(st, fresh(OPAQUE, "none"))]
        # A user-supplied callable (subscriber, emit listener, action, guard, service ...):
        # may return anything, may raise any Exception subclass that is not a library error
        # (UserExc), and - assumption A-user - does not write interpreter-private fields.
        if isinstance(recv, Val) and recv.sort == Callable_ and name.startswith("<call:"):
            eff = getattr(eng.contract, "user_effect", None)
            if eff:          # a user ACTION may also use the public API re-entrantly (send / stop): see user_effects below
                return eng.apply_contract(node, st, w.user_effects[eff], [], {})
            sx = st.copy()
            eng.raised.append(Outcome("raise", sx, ExcVal("UserExc")))
            return [(st, fresh(OPAQUE, "userret"))]
        return None
    w.external_hook = external_hook
    w.subclass_for_dispatch = {"BaseInterpreter": "Interpreter"}

    # What calling a user ACTION may do (assumption A-user, action flavour): besides returning anything or raising,
    # it may write context and use the interpreter's public API - send() (append-only while an event is being
    # processed) and stop() (status along an allowed edge, timer/actor tables emptied).  Never the configuration.
    from pyvc.world import Contract
    ua = Contract("model:user_action", [], props=[])
    ua.returns(OPAQUE)
    ua.mod("self.context", "self.status", "self._after_events", "self._after_threads", "self._pending_send_cancels",
           "self._scheduled_sends", "self._actors", "self._raise_depth", "self._event_queue", "self.g_accepted", "Flag.is_set")
    _keep = ["forall[Flag](lambda f: implies(old(f.is_set), f.is_set))","status_reach(old(self.status), self.status)",
             "implies(old(self._is_processing), appended_only(old(self._event_queue), old(self.g_accepted), self._event_queue, self.g_accepted))",
             "forall[str](lambda k: implies(k in self._after_events, k in old(self._after_events) and self._after_events[k] == old(self._after_events)[k]))"]
    for t in _keep:
        ua.ens(t)
    ua.may_raise("UserExc", ensures=_keep)
    w.user_effects = {"action": ua}

    def ctor_hook(eng, node, st, clsname, args, kw):
        """Constructors of the event classes: a fresh non-null event with the given type."""
        if clsname in ("Event", "DoneEvent", "AfterEvent"):
            ev = fresh(Ev, "ev")
            st.assume(ev.z != Ev.null)
            flds = w.classes["Event"].fields
            kind = {"Event": EV_PLAIN, "DoneEvent": EV_DONE, "AfterEvent": EV_AFTER}[clsname]
            st.assume(flds["kind"].fns[0](ev.z) == kind)
            t = kw.get("type", args[0] if args else None)
            if isinstance(t, Val) and t.sort == STR:
                st.assume(flds["type"].fns[0](ev.z) == t.z)
            src = kw.get("src", args[2] if len(args) > 2 else None)
            if isinstance(src, Val) and src.sort == STR:
                st.assume(flds["src"].fns[0](ev.z) == src.z)
            return [(st, ev)]
        if clsname == "TransitionDefinition":
            t = fresh(Trans, "tdef")
            st.assume(t.z != Trans.null)
            src = kw.get("source")
            if isinstance(src, Val) and src.sort == Node:
                st.assume(w.classes["Trans"].fields["source"].fns[0](t.z) == src.z)
            return [(st, t)]
        return None
    w.ctor_hook = ctor_hook
    # heap locations an external method call may write (used by the loop rule's havoc analysis)
    w.external_mods = lambda name: [("Flag", "is_set")] if name == ".set" else []
    return w

"""Executable twins of the axiomatised specification functions (used when the
contract texts are evaluated on real objects by the bounded layer)."""


def anc(n, a):
    """reflexive-transitive ancestor: a is n or an ancestor of n (anc(None, _) is false)."""
    cur = n
    while cur is not None:
        if cur is a:
            return True
        cur = cur.parent
    return False


def child_toward(d, t):
    cur = t
    while cur is not None and cur.parent is not d:
        cur = cur.parent
    return cur


def idprefix(n, a):
    return n.id.startswith(a.id + ".")


TWINS = {"anc": anc, "child_toward": child_toward, "idprefix": idprefix}


# ---------------------------------------------------------------------------
# C20 / C02 / C06 / C10 / C11: executable specification functions written from
# the property statements (NOT from the code); used as run-time oracles.
# ---------------------------------------------------------------------------
SYNTHETIC = ("done.", "error.", "after.", "xstate.")


def spec_descriptors(keys, e):
    """C20: identical key, then 'p.*' by decreasing prefix length (ties in key order), then '*';
    synthetic events only by their exact key."""
    keys = list(keys)
    if not keys or not e:
        return []
    out = [e] if e in keys else []
    if e.startswith(SYNTHETIC):
        return out
    part = [k for k in keys if k.endswith(".*") and (e == k[:-2] or e.startswith(k[:-2] + "."))]
    part.sort(key=len, reverse=True)       # python's sort is stable: ties stay in key order
    out += part
    if "*" in keys:
        out.append("*")
    return out


class _Missing(Exception):
    pass


def spec_eval_guard(interp, g, event):
    """C06: ordinary boolean meaning; stateIn <=> named state active; raising => False;
    named but unimplemented => _Missing (never decided either way, short-circuit allowed)."""
    if g is None:
        return True
    if g.is_composite:
        if g.type == "and":
            for c in g.children:
                if not spec_eval_guard(interp, c, event):
                    return False
            return True
        if g.type == "or":
            for c in g.children:
                if spec_eval_guard(interp, c, event):
                    return True
            return False
        return not spec_eval_guard(interp, g.children[0], event)
    guards = interp.machine.logic.guards
    if g.is_state_in and g.type not in guards:
        params = g.params({"context": interp.context, "event": event}) if callable(g.params) else g.params
        target = params.get("state", params.get("value")) if isinstance(params, dict) else params
        if not isinstance(target, str) or not target:
            return False
        t = target[1:] if target.startswith("#") else target
        return any(n.id == t or n.id.endswith("." + t) for n in interp._active_state_nodes)
    fn = guards.get(g.type)
    if not fn:
        raise _Missing(g.type)
    try:
        import inspect
        params = g.params({"context": interp.context, "event": event}) if callable(g.params) else g.params
        if params is None:
            return bool(fn(interp.context, event))
        npos = len([p for p in inspect.signature(fn).parameters.values()
                    if p.kind in (p.POSITIONAL_ONLY, p.POSITIONAL_OR_KEYWORD)])
        return bool(fn(interp.context, event, params) if npos >= 3 else fn(interp.context, event))
    except Exception:
        return False


def spec_state_candidates(state, event):
    """Candidates of ONE state for an event, in declaration order; returns (list, blocked)."""
    et = event.type
    out, blocked = [], False
    if et != "":
        for key in spec_descriptors(state.on.keys(), et):
            for t in state.on[key]:
                if t.forbidden:
                    blocked = True
                    break
                out.append(t)
            if blocked:
                break
    if blocked:
        return out, True
    if not et.startswith(("done.", "error.", "after.")):
        out += list(state.on.get("", []))
    if state.on_done is not None and state.on_done.event == et:
        out.append(state.on_done)
    cls = type(event).__name__
    if cls == "AfterEvent":
        for ts in state.after.values():
            out += [t for t in ts if t.event == et]
    if cls == "DoneEvent":
        for inv in state.invoke:
            if event.src == inv.id:
                out += [t for t in inv.on_done + inv.on_error if t.event == et]
    return out, False


def spec_nominee(interp, leaf, event, memo):
    cur = leaf
    while cur is not None:
        cands, blocked = spec_state_candidates(cur, event)
        for t in cands:
            if id(t) not in memo:
                memo[id(t)] = spec_eval_guard(interp, t.guard_def, event)
            if memo[id(t)]:
                return t
        if blocked:
            return None
        cur = cur.parent
    return None


def spec_selected(interp, event):
    """C02: nominees of the active atomic states (deepest first, then id), each fired once,
    executed deepest-source-first."""
    A = interp._active_state_nodes
    leaves = [s for s in A if not any(c in A for c in s.states.values())]
    leaves.sort(key=lambda s: (-s.depth, s.id))
    memo, sel = {}, []
    for leaf in leaves:
        t = spec_nominee(interp, leaf, event, memo)
        if t is not None and not any(t is x for x in sel):
            sel.append(t)
    sel.sort(key=lambda t: -t.source.depth)
    return sel


def spec_done(s, A):
    """C10: final => done; compound => its active child is a final state;
    parallel => every non-history region is done."""
    if s.type == "final":
        return True
    if s.type == "compound":
        return any(c in A and c.type == "final" for c in s.states.values())
    if s.type == "parallel":
        regs = [c for c in s.states.values() if c.type != "history"]
        return all(c in A and spec_done(c, A) for c in regs)
    return False


TWINS.update({"spec_descriptors": spec_descriptors, "spec_selected": spec_selected,
              "spec_done": spec_done, "spec_eval_guard": spec_eval_guard})


def _as_guard(g):
    from xstate_statemachine.models import GuardDefinition
    if g is None or isinstance(g, GuardDefinition):
        return g
    return GuardDefinition(g)


def spec_guard_value(interp, guard, event):
    """value of a guard per the statement, or the string 'missing' when it must not be decided"""
    try:
        return spec_eval_guard(interp, _as_guard(guard), event)
    except _Missing:
        return "missing"


TWINS.update({"spec_guard_value": spec_guard_value})

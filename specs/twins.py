"""Executable twins of the axiomatised specification functions (used when the
contract texts are evaluated on real objects by the bounded layer)."""


def anc(n, a):
    """reflexive-transitive ancestor: a is n or an ancestor of n (anc(None, _) is false)."""
    cur = n
    while cur is not None:
        if cur is a:
            return True
        cur = cur.parent
    return False


TWINS = {"anc": anc}

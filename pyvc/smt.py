"""Discharging verification conditions: z3 (python wheel, in worker processes)
with cvc5 (binary) as a second opinion for z3's `unknown`s on VCs in its logic.

A VC is `axioms /\ path-condition |= goal`; it is *discharged* iff the solver
answers `unsat` for `axioms /\ pc /\ not goal`.  `sat` and `unknown` both mean
"not discharged" (with MBQI off, z3 answers `unknown` for most falsifiable
quantified VCs).  Nothing else is ever mapped to a verdict.
"""
from __future__ import annotations

import multiprocessing as mp
import os
import subprocess
import tempfile
import time
from dataclasses import dataclass, field
from typing import Any, Dict, List, Optional, Tuple

import z3

Z3_OPTS = {
    "smt.mbqi": False,
    "smt.auto_config": False,
    "smt.string_solver": "seq",
}


@dataclass
class Obligation:
    oid: str            # fine-grained id (unique within a run)
    coarse: str         # stable id: "<fn>/<kind>:<label>"
    kind: str
    fn: str
    label: str
    pc: List[Any]
    goal: Any
    line: int = 0
    info: str = ""
    expect_fail: bool = False   # cover obligations: must NOT be provable
    low_budget: bool = False    # listed known finding: one short attempt is enough (it is expected to stay open)
    uses_strings: bool = False
    # results
    status: str = "pending"     # discharged | sat | unknown | error
    backend: str = ""
    time_s: float = 0.0
    model: Optional[str] = None
    smt2: Optional[str] = None


def _mk_solver(timeout_ms: int, mbqi=False):
    """mbqi: False | True | "noeq".  "noeq" = E-matching only AND no equation solving in the preprocessor:
    z3's solve_eqs eliminates a constant c when `c = t` is asserted (typically the negated goal
    `xs[i] == null`), which removes the only GROUND occurrence of t and leaves E-matching nothing to
    instantiate `forall j. xs[j] != null` with - a trivial VC then comes back `unknown`."""
    s = z3.Solver()
    s.set("timeout", timeout_ms)
    s.set("smt.mbqi", mbqi is True)
    s.set("smt.auto_config", False)
    if mbqi == "noeq" or (isinstance(mbqi, tuple) and mbqi[0] == "noeq"):
        s.set("smt.solve_eqs", False)
    if isinstance(mbqi, tuple):          # ("noeq" | "eq", random seed): E-matching order depends on the seed
        s.set("random_seed", int(mbqi[1]))
    return s


def symbols(e) -> frozenset:
    """names of the uninterpreted constants / functions occurring in a z3 expression
    (no cross-call cache: z3 re-uses the ids of freed asts)"""
    out = set()
    seen = set()
    stack = [e]
    while stack:
        x = stack.pop()
        i = x.get_id()
        if i in seen:
            continue
        seen.add(i)
        if z3.is_quantifier(x):
            stack.append(x.body())
            for pi in range(x.num_patterns()):
                stack.extend(x.pattern(pi).children())
            continue
        if z3.is_app(x):
            d = x.decl()
            if d.kind() == z3.Z3_OP_UNINTERPRETED:
                out.add(d.name())
            stack.extend(x.children())
    return frozenset(out)


_SYM_CACHE: dict = {}      # ast id -> (ast kept alive so that its id cannot be reused, symbols)


def symbols_cached(e) -> frozenset:
    k = e.get_id()
    hit = _SYM_CACHE.get(k)
    if hit is not None and hit[0].eq(e):
        return hit[1]
    sy = symbols(e)
    _SYM_CACHE[k] = (e, sy)
    return sy


_STR_CACHE: dict = {}


def mentions_strings(e) -> bool:
    k = e.get_id()
    hit = _STR_CACHE.get(k)
    if hit is not None and hit[0].eq(e):
        return hit[1]
    r = "str." in e.sexpr() or "String" in e.sexpr()
    _STR_CACHE[k] = (e, r)
    return r


def coi_slice(axioms: List[Any], ob: Obligation, max_hops: int = 0, nostr: bool = False):
    """Cone of influence: keep only hypotheses (and axioms) that share an uninterpreted symbol,
    transitively, with the goal.  Dropping hypotheses is sound for an `unsat` verdict.
    `max_hops` > 0 stops the closure after that many rounds (a still smaller, equally sound slice:
    most goals follow from the facts about the symbols they mention and their immediate neighbours,
    and a small query is immune to the instantiation noise of a large one)."""
    want = set(symbols_cached(ob.goal))
    items = [(p, symbols_cached(p)) for p in ob.pc] + [(a, symbols_cached(a)) for a in axioms]
    keep = [False] * len(items)
    # symbols that occur nearly everywhere connect everything: do not propagate through them
    hub = {"root", "null_Node", "self"}
    hops = 0
    changed = True
    while changed and (max_hops <= 0 or hops < max_hops):
        changed = False
        hops += 1
        frontier = set(want)
        for k, (p, sy) in enumerate(items):
            if not keep[k] and (sy - hub) & frontier:
                keep[k] = True
                new = (sy - hub) - want
                if new:
                    want |= new
                    changed = True
    s = z3.Solver()
    for k, (p, _) in enumerate(items):
        if keep[k] and not (nostr and mentions_strings(p)):      # dropping hypotheses is sound for `unsat`
            s.add(p)
    s.add(z3.Not(ob.goal))
    return s.to_smt2(), sum(keep), len(items)


def to_smt2(axioms: List[Any], ob: Obligation, nostr: bool = False) -> str:
    s = z3.Solver()
    for a in axioms:
        if nostr and "str." in a.sexpr():
            continue
        s.add(a)
    for p in ob.pc:
        if nostr and "str." in p.sexpr():
            continue          # dropping hypotheses is sound for an unsat verdict
        s.add(p)
    s.add(z3.Not(ob.goal))
    return s.to_smt2()


def _worker(args):
    oid, text, timeout_ms, mbqi = args
    t0 = time.time()
    try:
        s = _mk_solver(timeout_ms, mbqi)
        s.from_string(text)
        r = s.check()
        res = str(r)
        model = None
        if r == z3.sat:
            try:
                model = s.model().sexpr()
            except Exception:
                model = None
        reason = s.reason_unknown() if r == z3.unknown else ""
        return oid, res, time.time() - t0, model, reason
    except Exception as e:  # solver crash is an error, never a verdict
        return oid, "error", time.time() - t0, None, repr(e)


def run_cvc5(text: str, timeout_s: int) -> str:
    with tempfile.NamedTemporaryFile("w", suffix=".smt2", delete=False) as fh:
        # cvc5 wants a logic; ALL with strings-exp
        fh.write("(set-logic ALL)\n" + "\n".join(
            l for l in text.splitlines() if not l.startswith("(set-info")))
        path = fh.name
    try:
        p = subprocess.run(
            ["/usr/bin/cvc5", "--strings-exp", f"--tlimit={timeout_s*1000}", path],
            capture_output=True, text=True, timeout=timeout_s + 5)
        out = p.stdout.strip().splitlines()
        return out[0] if out else "error"
    except Exception:
        return "error"
    finally:
        os.unlink(path)


def _cvc5_worker(args):
    oid, text, timeout_s = args
    t0 = time.time()
    return oid, run_cvc5(text, timeout_s), time.time() - t0


_POOL = None


def pool(nproc: int):
    global _POOL
    if _POOL is None:
        ctx = mp.get_context("fork")
        _POOL = ctx.Pool(nproc)
    return _POOL


def close_pool():
    global _POOL
    if _POOL is not None:
        _POOL.terminate()
        _POOL = None


def discharge(axioms: List[Any], obs: List[Obligation], timeout_s: int = 30,
              nproc: int = 0, use_cvc5: bool = True, retry_mbqi: bool = True) -> None:
    """Fill in status/backend/time for every obligation."""
    if not obs:
        return
    nproc = nproc or int(os.environ.get("VERIF_PROCS", "0")) or min(16, os.cpu_count() or 4)
    class _Texts(dict):
        """full SMT-LIB text of an obligation, produced when a round actually needs it"""
        def __missing__(self, oid):
            t = to_smt2(axioms, byid[oid])
            self[oid] = t
            return t
    texts = _Texts()
    byid = {ob.oid: ob for ob in obs}
    p = pool(nproc)

    def rnd(sel, tmo_s, mbqi, tag):
        jobs = [(ob.oid, texts[ob.oid], int(tmo_s * 1000), mbqi) for ob in sel]
        for oid, res, dt, model, reason in p.imap_unordered(_worker, jobs, chunksize=1):
            ob = byid[oid]
            ob.time_s += dt
            if res == "unsat":
                ob.status, ob.backend = "discharged", tag
            elif res == "sat":
                ob.status, ob.backend, ob.model = "sat", tag, model
            elif res == "unknown" and ob.status == "pending":
                ob.status, ob.backend = "unknown", tag
                ob.info = (ob.info + " " + reason).strip()
            elif res == "error" and ob.status == "pending":
                ob.status, ob.backend = "error", tag
                ob.info = (ob.info + " " + reason).strip()

    open_ = lambda: [ob for ob in obs if ob.status in ("pending", "unknown", "error")]
    sliced = {}
    # round 0b: cone-of-influence slice (sound for the same reason)
    coi = {}
    for ob in obs:
        if not ob.expect_fail:
            try:
                t, kept, total = coi_slice(axioms, ob)
                if kept < total:
                    coi[ob.oid] = t
            except Exception:
                pass
    # round 0a: bounded-hop slices (2, then 3 hops), both solver modes, short budget
    for hops in (2, 3):
        jobs = []
        for ob in obs:
            if not ob.expect_fail and ob.status != "discharged":
                try:
                    t, kept, total = coi_slice(axioms, ob, max_hops=hops)
                    jobs.append((ob.oid, t, 3000, False))
                    jobs.append((ob.oid, t, 3000, "noeq"))
                    if not mentions_strings(ob.goal):
                        # most goals need no string fact at all, and z3's sequence solver is what makes a query slow and fickle
                        t2, _, _ = coi_slice(axioms, ob, max_hops=hops, nostr=True)
                        if t2 != t:
                            jobs.append((ob.oid, t2, 3000, False))
                            jobs.append((ob.oid, t2, 3000, "noeq"))
                except Exception:
                    pass
        for oid, res, dt, model, reason in p.imap_unordered(_worker, jobs, chunksize=4):
            ob = byid[oid]
            ob.time_s += dt
            if res == "unsat" and ob.status != "discharged":
                ob.status, ob.backend = "discharged", f"z3/{hops}-hop-slice"
    coi = {k_: v_ for k_, v_ in coi.items() if byid[k_].status != "discharged"}
    if coi:
        jobs = [(oid, t, 6000, False) for oid, t in coi.items()]
        for oid, res, dt, model, reason in p.imap_unordered(_worker, jobs, chunksize=1):
            ob = byid[oid]
            ob.time_s += dt
            if res == "unsat":
                ob.status, ob.backend = "discharged", "z3/cone-of-influence-slice"
        jobs = [(oid, t, 6000, "noeq") for oid, t in coi.items() if byid[oid].status != "discharged"]
        for oid, res, dt, model, reason in p.imap_unordered(_worker, jobs, chunksize=1):
            ob = byid[oid]
            ob.time_s += dt
            if res == "unsat":
                ob.status, ob.backend = "discharged", "z3/cone-of-influence-slice/no-solve-eqs"
    # round 0c: string-free slice (sound: only drops hypotheses) for goals without string operators
    for ob in obs:
        if ob.status != "discharged" and not ob.expect_fail and "str." not in ob.goal.sexpr() and "str." in texts[ob.oid]:
            sliced[ob.oid] = to_smt2(axioms, ob, nostr=True)
    if sliced:
        jobs = [(oid, t, 5000, False) for oid, t in sliced.items()]
        for oid, res, dt, model, reason in p.imap_unordered(_worker, jobs, chunksize=1):
            ob = byid[oid]
            ob.time_s += dt
            if res == "unsat":
                ob.status, ob.backend = "discharged", "z3/string-free-slice"
    obs_all = obs
    obs = [ob for ob in obs_all if ob.status != "discharged"]
    # cover obligations only get the first short round: "not refutable quickly" is what they need
    rnd(obs, min(timeout_s, max(3, timeout_s / 6)), False, "z3")
    # The expensive rounds run in batches of open obligations.  Once a batch ends with a CONFIRMED failure (an obligation
    # that went through every round and stayed open) the run's verdict is settled; the rest is marked "not attempted"
    # (reported as undecided, never as a violation) instead of spending ~2 minutes of solver time on each.
    def late_rounds(batch):
        for tmo, mb, tag in ((timeout_s / 3, "noeq", "z3/no-solve-eqs"), (timeout_s / 3, True, "z3+mbqi"), (timeout_s, False, "z3")):
            sel = [ob for ob in batch if ob.status in ("pending", "unknown", "error")]
            if sel and (retry_mbqi or not mb):
                rnd(sel, tmo, mb, tag)
        # rescue: the sliced queries again with the FULL budget - on a loaded machine the short first rounds can time out
        # on queries that only the slice makes easy (verdicts must not depend on how busy the cores are)
        for mode, tag in ((False, "z3/cone-of-influence-slice(full budget)"), ("noeq", "z3/cone-of-influence-slice/no-solve-eqs(full budget)")):
            jobs = [(ob.oid, coi[ob.oid], int(timeout_s * 1000), mode) for ob in batch if ob.status in ("unknown", "error") and ob.oid in coi]
            for oid, res, dt, model, reason in p.imap_unordered(_worker, jobs, chunksize=1):
                ob = byid[oid]
                ob.time_s += dt
                if res == "unsat":
                    ob.status, ob.backend = "discharged", tag
        # E-matching luck: the same sliced queries under other random seeds (an `unsat` is an `unsat` whatever the seed)
        for seed_ in (11, 23, 47):
            jobs = []
            for ob in batch:
                if ob.status in ("unknown", "error"):
                    for hops in (3, 0):
                        try:
                            t_, _, _ = coi_slice(axioms, ob, max_hops=hops)
                        except Exception:
                            continue
                        jobs.append((ob.oid, t_, int(timeout_s * 250), ("noeq", seed_)))
                        jobs.append((ob.oid, t_, int(timeout_s * 250), ("eq", seed_)))
            for oid, res, dt, model, reason in p.imap_unordered(_worker, jobs, chunksize=1):
                ob = byid[oid]
                ob.time_s += dt
                if res == "unsat" and ob.status != "discharged":
                    ob.status, ob.backend = "discharged", f"z3/slice/seed{seed_}"
        pend = [ob for ob in batch if ob.status in ("unknown", "error")]
        if pend and use_cvc5 and os.path.exists("/usr/bin/cvc5"):
            jobs = [(ob.oid, texts[ob.oid], timeout_s) for ob in pend]
            for oid, r, dt in p.imap_unordered(_cvc5_worker, jobs, chunksize=1):
                ob = byid[oid]
                ob.time_s += dt
                if r == "unsat":
                    ob.status, ob.backend = "discharged", "cvc5"

    todo = [ob for ob in open_() if not ob.expect_fail and not ob.low_budget]
    BATCH = 2 * nproc
    confirmed = False
    while todo:
        batch, todo = todo[:BATCH], todo[BATCH:]
        if confirmed:
            for ob in batch:
                ob.status, ob.backend = "unknown", "not-attempted"
                ob.info = (ob.info + " not attempted: another obligation of this run is already confirmed open").strip()
            continue
        late_rounds(batch)
        if any(ob.status != "discharged" for ob in batch):
            confirmed = True
    for ob in obs_all:
        if ob.status != "discharged":
            ob.smt2 = texts[ob.oid]

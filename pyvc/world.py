"""The logical world a verification run lives in: class schemas (object fields
as uninterpreted functions), specification functions, background axioms and
the sidecar contract registry.

Nothing here is specific to xstate-statemachine; /verif/specs fills it in.
"""
from __future__ import annotations

from dataclasses import dataclass, field
from typing import Any, Callable, Dict, List, Optional, Tuple

import z3

from .sorts import (BOOL, INT, STR, OptSort, Ref, RefSort, Sort, Val)


@dataclass
class Field:
    name: str
    sort: Sort
    mutable: bool = False
    # z3 functions, one per component (immutable fields only)
    fns: Tuple[Any, ...] = ()


@dataclass
class ClassSchema:
    name: str                      # sort name, e.g. "Node"
    pyclasses: Tuple[str, ...]     # python class names mapping to this sort
    fields: Dict[str, Field] = field(default_factory=dict)
    # properties / tiny methods that are inlined from the real source:
    inline: Dict[str, Tuple[str, str]] = field(default_factory=dict)  # name -> (module, qualname)


@dataclass
class SpecFn:
    name: str
    argsorts: List[Sort]
    ressort: Sort
    fn: Any = None                 # z3 Function (for uninterpreted / axiomatised)
    macro: Optional[Tuple[List[str], str]] = None   # (formal names, expression text)


@dataclass
class Axiom:
    name: str
    text: str
    formula: Any = None            # z3 formula, filled by the engine on load
    trusted: str = "assumed"       # "assumed" | "lean:<lemma>" | "bounded:<what>" | "definition"


@dataclass
class LoopSpec:
    invariants: List[str] = field(default_factory=list)
    decreases: Optional[str] = None
    ghost_init: Dict[str, Tuple[Sort, str]] = field(default_factory=dict)
    hints: List[str] = field(default_factory=list)


@dataclass
class Raises:
    exc: str                       # exception class name
    when: Optional[str] = None     # condition (over pre-state) under which it MAY be raised; None = any time
    ensures: List[str] = field(default_factory=list)  # exceptional postcondition
    labels: List[Optional[str]] = field(default_factory=list)   # optional names of those clauses (obligation labels)


@dataclass
class Contract:
    target: str                    # "module:Class.func" (primary)
    also: List[str] = field(default_factory=list)   # other bodies that must meet the same contract
    params: Dict[str, Sort] = field(default_factory=dict)
    result: Optional[Sort] = None
    locals: Dict[str, Sort] = field(default_factory=dict)
    requires: List[str] = field(default_factory=list)
    ensures: List[Tuple[str, str]] = field(default_factory=list)  # (label, text)
    modifies: List[str] = field(default_factory=list)             # heap locations, e.g. "self._active_state_nodes"
    raises: List[Raises] = field(default_factory=list)
    loops: Dict[int, LoopSpec] = field(default_factory=dict)
    decreases: Optional[str] = None        # for recursion
    pure: bool = False
    props: List[str] = field(default_factory=list)   # property ids served
    trusted: Optional[str] = None          # if set: contract is ASSUMED (not verified), with the reason
    hints: Dict[int, List[str]] = field(default_factory=dict)     # stmt ordinal -> lemma texts to assert+assume
    loops_by_body: Dict[str, Dict[int, LoopSpec]] = field(default_factory=dict)
    ghost_params: Dict[str, Sort] = field(default_factory=dict)
    ghosts: Dict[str, Sort] = field(default_factory=dict)          # ghost locals (unconstrained at entry)
    ghost_after: Dict[str, List[str]] = field(default_factory=dict)  # stmt source text -> ["name = expr", ...]
    ghost_before: Dict[str, List[str]] = field(default_factory=dict)
    ghost_init: Dict[str, str] = field(default_factory=dict)
    notes: str = ""

    # ---- DSL -----------------------------------------------------------
    def param(self, name, sort):
        self.params[name] = sort
        return self

    def ghost_param(self, name, sort, default=None):
        """A specification-only parameter (e.g. a termination bound).  A caller supplies it by assigning the
        ghost variable `ghostarg_<name>` before the call (c.before(<call stmt>, "ghostarg_<name> = expr"));
        otherwise `default` (an expression over the call's pre-state) is used."""
        self.ghost_params[name] = sort
        if default is not None:
            self.ghost_param_defaults = getattr(self, "ghost_param_defaults", {})
            self.ghost_param_defaults[name] = default
        return self

    def mutates_param(self, name):
        """The function mutates this container parameter in place; its final value is `final_<name>` in the
        postconditions and replaces the caller's variable after a call."""
        self.mutated_params = getattr(self, "mutated_params", []) + [name]
        self.expose = list(getattr(self, "expose", [])) + [name]
        self.locals[name] = self.params[name]
        return self

    def returns(self, sort):
        self.result = sort
        return self

    def local(self, name, sort):
        self.locals[name] = sort
        return self

    def req(self, *texts):
        self.requires += list(texts)
        return self

    def ens(self, *texts, label=None):
        for i, t in enumerate(texts):
            self.ensures.append((label or f"post#{len(self.ensures)}", t))
        return self

    def mod(self, *locs):
        # "self.x" = a field of the interpreter; "Cls.f" = the mutable field f of every Cls object (heap location (Cls, f))
        self.modifies += [l if (not isinstance(l, str) or l.startswith("self.")) else tuple(l.split(".", 1)) for l in locs]
        return self

    def may_raise(self, exc, when=None, ensures=()):
        # a clause may be given as (label, text)
        texts = [e[1] if isinstance(e, tuple) else e for e in ensures]
        labels = [e[0] if isinstance(e, tuple) else None for e in ensures]
        self.raises.append(Raises(exc, when, texts, labels))
        return self

    def loop(self, ordinal, inv=(), decreases=None, hints=(), body=None):
        """Loop contract by ordinal; `body` restricts it to one of several bodies sharing the contract
        (suffix of the target, e.g. "SyncInterpreter._exit_states")."""
        spec = LoopSpec(list(inv), decreases, {}, list(hints))
        if body is None:
            self.loops[ordinal] = spec
        else:
            self.loops_by_body.setdefault(body, {})[ordinal] = spec
        return self

    def loops_for(self, target):
        short = target.split(":")[1]
        for body, m in self.loops_by_body.items():
            if short.endswith(body):
                return m
        return self.loops

    def ghost(self, name, sort, init=None, assume=None):
        """A ghost local.  `init`: its initial value (an expression); `assume`: a formula describing its
        initial value when no expression can (e.g. "the map is empty"): ghost state is the prover's own, so
        choosing its initial value is sound as long as such a value exists."""
        self.ghosts[name] = sort
        if init is not None:
            self.ghost_init[name] = init
        if assume is not None:
            self.ghost_assume = getattr(self, "ghost_assume", []) + [assume]
        return self

    def after(self, stmt_text, *assigns):
        self.ghost_after.setdefault(stmt_text.strip(), []).extend(assigns)
        return self

    def before(self, stmt_text, *assigns):
        """ghost code executed immediately BEFORE the statement"""
        self.ghost_before.setdefault(stmt_text.strip(), []).extend(assigns)
        return self

    @property
    def short(self):
        return self.target.split(":")[1]


class World:
    def __init__(self):
        self.classes: Dict[str, ClassSchema] = {}
        self.py2sort: Dict[str, Sort] = {}
        self.specfns: Dict[str, SpecFn] = {}
        self.axioms: List[Axiom] = []
        self.contracts: Dict[str, Contract] = {}      # by target
        self.by_method: Dict[str, Contract] = {}      # by bare function name
        self.by_method_all: Dict[str, list] = {}      # bare name -> [(qualname, contract)]
        self.self_fields: Dict[str, Field] = {}       # mutable fields of `self`
        self.self_sort: RefSort = Ref("Interp")
        self.exc_parents: Dict[str, Optional[str]] = {}
        self.consts: Dict[str, Val] = {}
        self.assumptions: List[str] = []
        self.str_consts: Dict[str, str] = {}          # module-level string constants (name -> value)

    # ---- schema ---------------------------------------------------------
    def cls(self, name: str, *pyclasses: str) -> ClassSchema:
        c = ClassSchema(name, tuple(pyclasses))
        self.classes[name] = c
        for p in pyclasses:
            self.py2sort[p] = Ref(name)
        return c

    def fld(self, cls: str, name: str, sort: Sort, mutable=False):
        c = self.classes[cls]
        fns = ()
        if not mutable:
            fns = tuple(
                z3.Function(f"{cls}.{name}{s}", Ref(cls).z, z)
                for s, z in sort.comps()
            )
        c.fields[name] = Field(name, sort, mutable, fns)

    def inline_prop(self, cls: str, name: str, module: str, qualname: str):
        self.classes[cls].inline[name] = (module, qualname)

    def selffld(self, name: str, sort: Sort):
        self.self_fields[name] = Field(name, sort, True)

    # ---- spec functions -------------------------------------------------
    def fn(self, name: str, argsorts: List[Sort], ressort: Sort):
        assert all(a.scalar for a in argsorts) and ressort.scalar
        f = z3.Function(
            name, *[a.comps()[0][1] for a in argsorts], ressort.comps()[0][1]
        )
        self.specfns[name] = SpecFn(name, argsorts, ressort, fn=f)
        return f

    def macro(self, name: str, formals: List[str], text: str):
        self.specfns[name] = SpecFn(name, [], BOOL, macro=(formals, text))

    def axiom(self, name: str, text: str, trusted="assumed"):
        self.axioms.append(Axiom(name, text, None, trusted))

    def exc(self, name: str, parent: Optional[str]):
        self.exc_parents[name] = parent

    def is_subexc(self, name: str, ancestor: str) -> bool:
        cur: Optional[str] = name
        while cur is not None:
            if cur == ancestor:
                return True
            cur = self.exc_parents.get(cur)
        return False

    # ---- contracts ------------------------------------------------------
    def contract(self, target: str, also=(), props=()):
        def deco(f: Callable[[Contract], Any]):
            c = Contract(target, list(also), props=list(props))
            f(c)
            self.contracts[target] = c
            for t in [target] + list(also):
                self.by_method.setdefault(t.split(":")[1].split(".")[-1], c)
                self.by_method_all.setdefault(t.split(":")[1].split(".")[-1], []).append((t.split(":")[1], c))
            return c
        return deco

    def method_contract(self, name: str, cls: Optional[str] = None):
        """Contract for `self.<name>(...)` called from a body of class `cls`: the contract attached to that
        class's own method when there is one (engine twins may carry different contracts), else the first registered."""
        if cls:
            for q, c in self.by_method_all.get(name, []):
                if q == f"{cls}.{name}":
                    return c
            # the async methods of BaseInterpreter run under the asyncio engine: they call the Interpreter's overrides
            for base, sub in getattr(self, "subclass_for_dispatch", {}).items():
                if cls == base:
                    for q, c in self.by_method_all.get(name, []):
                        if q == f"{sub}.{name}":
                            return c
        return self.by_method.get(name)

    def assume(self, text: str):
        self.assumptions.append(text)

"""Run contracts through the engine and the solvers; print a summary."""
import sys, time, os
sys.path.insert(0, os.path.dirname(os.path.dirname(os.path.abspath(__file__))))
from pyvc.engine import Engine
from pyvc import smt


def load_world():
    from specs.xsm import build_world
    import importlib, pkgutil, contracts
    w = build_world()
    for m in pkgutil.iter_modules(contracts.__path__):
        mod = importlib.import_module("contracts." + m.name)
        if hasattr(mod, "register"):
            mod.register(w)
    return w


def verify_all(w, only=None, timeout_s=30, verbose=True):
    eng = Engine(w)
    reports = []
    for tgt, c in w.contracts.items():
        if c.trusted or getattr(c, 'bounded_only', False):
            continue
        for t in [c.target] + c.also:
            if only and not any(o in t for o in only):
                continue
            rep = eng.verify(c, t)
            reports.append(rep)
    obs = [o for r in reports for o in r.obligations]
    smt.discharge(eng.axioms(), obs, timeout_s=timeout_s)
    if verbose:
        for r in reports:
            bad = [o for o in r.obligations if (o.status != "discharged") != o.expect_fail]
            print(f"{r.target}: {len(r.obligations)} VCs, {len(bad)} bad, paths={r.paths}, gen={r.gen_time_s:.1f}s" + (f" ERROR {r.error}" if r.error else ""))
            for o in sorted(r.obligations, key=lambda o: -o.time_s)[:4]:
                if o.time_s > 3:
                    print("     slow:", o.status, o.kind, o.label, f"{o.time_s:.1f}s", o.backend)
            for o in bad:
                print("    ", o.status, o.kind, o.label, f"line {o.line}", f"{o.time_s:.1f}s", o.backend)
    return eng, reports


if __name__ == "__main__":
    w = load_world()
    t0 = time.time()
    verify_all(w, only=sys.argv[1:] or None)
    print("total", round(time.time() - t0, 1), "s")
    smt.close_pool()

"""Expression evaluation: python `ast` expression -> symbolic value(s).

`ev(node, st)` returns a list of (state, value) pairs: an expression may fork
(short-circuit operators with effectful operands, calls that may raise ...).
Paths on which the expression raises are appended to `self.raised` as
Outcome('raise', ...) and picked up by the enclosing statement.
"""
from __future__ import annotations

import ast
from typing import Any, List, Tuple

import z3

from .sorts import (BOOL, INT, NONE, OPAQUE, STR, VNONE, DictSort, ListSort, MapSort,
                    NoneSort, OptSort, Ref, RefSort, SetSort, Sort, TupleSort,
                    Val, dict_get, dict_has, dict_keys, eq_vals, fresh,
                    fresh_name, list_append, list_concat, list_empty, list_get,
                    list_len, list_literal, mk, opt_isnone, opt_none, opt_some,
                    opt_val, set_add, set_empty, set_lambda, set_mem, vbool,
                    vint, vstr)
from .state import (BoundMethod, Builtin, ClassRef, Closure, DictItems,
                    DictValues, ExcVal, GenExp, ModuleRef, Outcome, PyTuple,
                    SpecFnRef, St, Unsupported)

BUILTINS = {"len", "isinstance", "bool", "list", "set", "sorted", "max", "min", "any",
            "all", "next", "id", "getattr", "hasattr", "callable", "str", "int",
            "float", "dict", "tuple", "frozenset", "type", "repr", "filter", "iter",
            "enumerate", "range", "zip", "super", "print"}
MODULES = {"logger", "logging", "copy", "json", "inspect", "asyncio", "threading",
           "uuid", "time", "functools"}


class ContractFn:
    """A module-level function of the library that has a sidecar contract (called by bare name)."""
    def __init__(self, contract):
        self.contract = contract


class ExprMixin:
    # ------------------------------------------------------------------ utils
    def truthy(self, v) -> Any:
        if isinstance(v, Val):
            s = v.sort
            if s == BOOL:
                return v.z
            if s == INT:
                return v.z != 0
            if s == STR:
                return z3.Length(v.z) > 0
            if isinstance(s, NoneSort):
                return z3.BoolVal(False)
            if isinstance(s, RefSort):
                return v.z != s.null
            if isinstance(s, OptSort):
                return z3.And(z3.Not(v.t[0]), self.truthy(opt_val(v)))
            if isinstance(s, ListSort):
                return v.t[0] > 0
            if isinstance(s, DictSort):
                return v.t[0] > 0
            if isinstance(s, SetSort):
                x = z3.Const(fresh_name("tx"), s.elem.z)
                return z3.Exists([x], z3.Select(v.t[0], x))
        if isinstance(v, PyTuple):
            return z3.BoolVal(len(v.items) > 0)
        if isinstance(v, (Closure, BoundMethod, ClassRef)):
            return z3.BoolVal(True)
        raise Unsupported(None, f"truthiness of {v!r}")

    def coerce(self, v, sort: Sort, node=None):
        """Coerce `v` to `sort` where python would let the value through."""
        if isinstance(v, PyTuple) and not v.items and isinstance(sort, ListSort):
            return list_empty(sort.elem)
        if isinstance(v, Val):
            if v.sort == sort:
                return v
            if isinstance(v.sort, NoneSort):
                if isinstance(sort, RefSort):
                    return mk(sort, sort.null)
                if isinstance(sort, OptSort):
                    return opt_none(sort.inner)
            if isinstance(sort, OptSort) and v.sort == sort.inner:
                return opt_some(v)
            if isinstance(sort, OptSort) and isinstance(v.sort, OptSort):
                return v
            if sort == BOOL:
                return vbool(self.truthy(v))
            if sort == OPAQUE and isinstance(v.sort, RefSort):
                # an object passed where an unmodelled ("Any") value is expected: an injection per class
                inj = z3.Function("as_opaque_" + v.sort.cls, v.sort.z, OPAQUE.z)
                return Val(OPAQUE, (inj(v.z),))
        raise Unsupported(node, f"cannot coerce {getattr(v, 'sort', v)} to {sort}")

    def is_none(self, v) -> Any:
        if isinstance(v, Val):
            s = v.sort
            if isinstance(s, NoneSort):
                return z3.BoolVal(True)
            if isinstance(s, RefSort):
                return v.z == s.null
            if isinstance(s, OptSort):
                return v.t[0]
            return z3.BoolVal(False)
        return z3.BoolVal(False)

    def equal(self, a, b, node=None) -> Any:
        if isinstance(a, PyTuple) and isinstance(b, PyTuple):
            if len(a.items) != len(b.items):
                return z3.BoolVal(False)
            return z3.And(*[self.equal(x, y, node) for x, y in zip(a.items, b.items)])
        if not (isinstance(a, Val) and isinstance(b, Val)):
            raise Unsupported(node, f"== on {a!r}, {b!r}")
        if isinstance(a.sort, NoneSort):
            return self.is_none(b)
        if isinstance(b.sort, NoneSort):
            return self.is_none(a)
        if a.sort == b.sort:
            if isinstance(a.sort, (ListSort,)):
                i = z3.Int(fresh_name("qi"))
                return z3.And(a.t[0] == b.t[0], z3.ForAll([i], z3.Implies(
                    z3.And(0 <= i, i < a.t[0]),
                    eq_vals(list_get(a, i), list_get(b, i)))))
            return eq_vals(a, b)
        if isinstance(a.sort, OptSort) and a.sort.inner == b.sort:
            return z3.And(z3.Not(a.t[0]), eq_vals(opt_val(a), b))
        if isinstance(b.sort, OptSort) and b.sort.inner == a.sort:
            return z3.And(z3.Not(b.t[0]), eq_vals(opt_val(b), a))
        if isinstance(a.sort, RefSort) and isinstance(b.sort, RefSort):
            return z3.BoolVal(False) if a.sort != b.sort else a.z == b.z
        # different python types never compare equal
        return z3.BoolVal(False)

    def less(self, a, b, strict=True, node=None):
        if isinstance(a, PyTuple) and isinstance(b, PyTuple):
            # lexicographic
            assert len(a.items) == len(b.items)
            res = z3.BoolVal(not strict)
            for x, y in reversed(list(zip(a.items, b.items))):
                res = z3.Or(self.less(x, y, True, node), z3.And(self.equal(x, y, node), res))
            return res
        if isinstance(a, Val) and isinstance(b, Val) and a.sort == b.sort:
            if a.sort == INT:
                return a.z < b.z if strict else a.z <= b.z
            if a.sort == STR:
                return (a.z < b.z) if strict else (a.z <= b.z)
            if a.sort == BOOL:
                ai, bi = z3.If(a.z, 1, 0), z3.If(b.z, 1, 0)
                return ai < bi if strict else ai <= bi
        raise Unsupported(node, f"ordering on {a!r}, {b!r}")

    def ite(self, c, a, b, node=None):
        if isinstance(a, Val) and isinstance(b, Val):
            if a.sort != b.sort:
                if isinstance(a.sort, NoneSort):
                    a = self.coerce(a, b.sort if not b.sort.scalar or isinstance(b.sort, RefSort) else OptSort(b.sort), node)
                    if a.sort != b.sort:
                        b = self.coerce(b, a.sort, node)
                elif isinstance(b.sort, NoneSort):
                    b = self.coerce(b, a.sort if isinstance(a.sort, (RefSort, OptSort)) else OptSort(a.sort), node)
                    if a.sort != b.sort:
                        a = self.coerce(a, b.sort, node)
                elif isinstance(a.sort, OptSort):
                    b = self.coerce(b, a.sort, node)
                elif isinstance(b.sort, OptSort):
                    a = self.coerce(a, b.sort, node)
                else:
                    raise Unsupported(node, f"ite over sorts {a.sort} / {b.sort}")
            return Val(a.sort, tuple(z3.If(c, x, y) for x, y in zip(a.t, b.t)))
        raise Unsupported(node, "ite over non-values")

    def contains(self, item, cont, node=None):
        if isinstance(cont, PyTuple):
            return z3.Or(*[self.equal(item, c, node) for c in cont.items]) if cont.items else z3.BoolVal(False)
        if isinstance(cont, Val):
            s = cont.sort
            if isinstance(s, SetSort):
                return set_mem(cont, self.coerce(item, s.elem, node))
            if isinstance(s, DictSort):
                if isinstance(item.sort, OptSort) and item.sort.inner == s.key:
                    return z3.And(z3.Not(item.t[0]), dict_has(cont, opt_val(item)))
                return dict_has(cont, self.coerce(item, s.key, node))
            if isinstance(s, ListSort):
                i = z3.Int(fresh_name("mi"))
                it = self.coerce(item, s.elem, node)
                return z3.Exists([i], z3.And(0 <= i, i < cont.t[0], eq_vals(list_get(cont, i), it)))
            if s == STR and item.sort == STR:
                return z3.Contains(cont.z, item.z)
        raise Unsupported(node, f"'in' on {cont!r}")

    def py_index(self, seq_len, idx):
        """python index normalisation for a possibly negative *constant*."""
        return idx

    # ---------------------------------------------------------------- dispatch
    def ev(self, node, st: St) -> List[Tuple[St, Any]]:
        m = getattr(self, "ev_" + type(node).__name__, None)
        if m is None:
            raise Unsupported(node, f"expression {type(node).__name__}")
        return m(node, st)

    def ev1(self, node, st: St):
        """Evaluate an expression that must not fork (spec mode / pure)."""
        r = self.ev(node, st)
        if len(r) != 1:
            raise Unsupported(node, "expression forks in a position where it must not")
        return r[0][1]

    # ---------------------------------------------------------------- leaves
    def ev_Constant(self, node, st):
        v = node.value
        if v is None:
            return [(st, VNONE)]
        if isinstance(v, bool):
            return [(st, vbool(v))]
        if isinstance(v, int):
            return [(st, vint(v))]
        if isinstance(v, str):
            return [(st, vstr(v))]
        if isinstance(v, float):
            return [(st, fresh(OPAQUE, "float"))]
        raise Unsupported(node, f"constant {v!r}")

    def ev_Name(self, node, st):
        n = node.id
        if n in st.env:
            return [(st, st.env[n])]
        if n == "self" and "self" not in st.env:
            raise Unsupported(node, "self unbound")
        w = self.world
        if n in w.consts:
            return [(st, w.consts[n])]
        if n in w.specfns:
            return [(st, SpecFnRef(n))]
        if n in ("forall", "exists", "implies", "iff", "old", "ite", "distinct",
                 "seq_eq", "same", "set_eq", "subset", "fieldof", "setof", "unchanged", "keys", "keyidx", "store", "append", "cat"):
            return [(st, SpecFnRef(n))]
        if n in w.str_consts:
            c = w.str_consts[n]
            return [(st, vstr(c) if isinstance(c, str) else vint(c))]
        if n in w.py2sort or n in w.exc_parents or n in self.known_classes:
            return [(st, ClassRef(n))]
        ok, val = self.resolve_module_const(n)
        if ok:
            return [(st, val)]
        c = w.by_method.get(n)
        if c is not None and "." not in c.target.split(":")[1] and n not in BUILTINS:
            return [(st, ContractFn(c))]        # a module-level function under contract
        if n in BUILTINS:
            return [(st, Builtin(n))]
        if n in MODULES:
            return [(st, ModuleRef(n))]
        raise Unsupported(node, f"unbound name '{n}'")

    def resolve_module_const(self, name):
        from . import extract as X
        mod = getattr(self, "cur_module", None)
        if not mod:
            return False, None
        ok, val = X.resolve_global(mod, name)
        if not ok:
            return False, None

        def conv(v):
            if isinstance(v, bool):
                return vbool(v)
            if isinstance(v, int):
                return vint(v)
            if isinstance(v, str):
                return vstr(v)
            if isinstance(v, tuple):
                return PyTuple(tuple(conv(x) for x in v))
            raise Unsupported(None, f"module constant {name} = {v!r}")
        try:
            return True, conv(val)
        except Unsupported:
            return False, None

    def ev_Tuple(self, node, st):
        outs = [(st, [])]
        for e in node.elts:
            nxt = []
            for s, acc in outs:
                for s2, v in self.ev(e, s):
                    nxt.append((s2, acc + [v]))
            outs = nxt
        return [(s, PyTuple(tuple(acc))) for s, acc in outs]

    def ev_List(self, node, st):
        if not node.elts:
            hint = self.expected_sort
            if isinstance(hint, ListSort):
                return [(st, list_empty(hint.elem))]
            return [(st, PyTuple(()))]     # untyped empty literal: takes its sort where it is used
        outs = self.ev_Tuple(node, st)
        res = []
        for s, tup in outs:
            items = list(tup.items)
            es = items[0].sort
            hint = self.expected_sort
            if isinstance(hint, ListSort):
                es = hint.elem
            res.append((s, list_literal(es, [self.coerce(i, es, node) for i in items])))
        return res

    def ev_Set(self, node, st):
        outs = self.ev_Tuple(node, st)
        res = []
        for s, tup in outs:
            items = list(tup.items)
            v = set_empty(items[0].sort)
            for it in items:
                v = set_add(v, it)
            res.append((s, v))
        return res

    def ev_Dict(self, node, st):
        if not node.keys:
            hint = self.expected_sort
            if isinstance(hint, DictSort):
                return [(st, self.dict_empty(hint))]
            return [(st, PyTuple(()))]     # untyped empty literal
        raise Unsupported(node, "dict display")

    def dict_empty(self, s: DictSort) -> Val:
        kz = s.key.z
        comps = [z3.IntVal(0), z3.K(z3.IntSort(), z3.Const(f"dflt_{kz}", kz)),
                 z3.K(kz, z3.BoolVal(False))]
        for _, z in s.val.comps():
            comps.append(z3.K(kz, z3.Const(f"dflt_{z}", z)))
        return Val(s, tuple(comps))

    def ev_JoinedStr(self, node, st):
        parts = []
        cur = [(st, [])]
        for v in node.values:
            nxt = []
            for s, acc in cur:
                if isinstance(v, ast.Constant):
                    nxt.append((s, acc + [vstr(v.value)]))
                elif isinstance(v, ast.FormattedValue):
                    if v.conversion != -1 or v.format_spec is not None:
                        nxt.append((s, acc + [fresh(STR, "fmt")]))
                        continue
                    try:
                        sub = self.ev(v.value, s)
                    except Unsupported:
                        nxt.append((s, acc + [fresh(STR, "fmt")]))
                        continue
                    for s2, x in sub:
                        if isinstance(x, Val) and x.sort == STR:
                            nxt.append((s2, acc + [x]))
                        else:
                            fv = fresh(STR, "fmt")
                            if isinstance(x, Val) and len(x.t) == 1 and any(x.t[0].eq(u) for u in getattr(self, "uuid_terms", [])):
                                fv.is_uuid = True
                            nxt.append((s2, acc + [fv]))
                else:
                    raise Unsupported(node, "f-string part")
            cur = nxt
        out = []
        for s, acc in cur:
            if not acc:
                out.append((s, vstr("")))
            elif len(acc) == 1:
                out.append((s, acc[0]))
            else:
                r = vstr(z3.Concat(*[a.z for a in acc]))
                if any(getattr(a, "is_uuid", False) for a in acc):
                    # A-uuid: a string that embeds a fresh uuid4 differs from every string that existed before
                    for loc, hv in s.heap.items():
                        if isinstance(hv, Val) and isinstance(hv.sort, DictSort) and hv.sort.key == STR:
                            s.assume(z3.Not(z3.Select(hv.t[2], r.z)))
                out.append((s, r))
        return out

    def ev_Await(self, node, st):
        outs = self.ev(node.value, st)
        if not isinstance(node.value, ast.Call):
            # awaiting a task object (not a coroutine call): the task may have been cancelled -> CancelledError
            for s_, _v in outs:
                self.raised.append(Outcome("raise", s_.copy(), ExcVal("CancelledError")))
        return outs

    def ev_Lambda(self, node, st):
        return [(st, Closure(node, st.env))]

    # ---------------------------------------------------------------- attribute
    def ev_Attribute(self, node, st):
        res = []
        for s, base in self.ev(node.value, st):
            res += self.get_attr(node, s, base, node.attr)
        return res

    def get_attr(self, node, st, base, attr):
        w = self.world
        if isinstance(base, ModuleRef):
            return [(st, ModuleRef(base.name + "." + attr))]
        if isinstance(base, ClassRef):
            return [(st, BoundMethod(base, attr))]
        if isinstance(base, Val) and isinstance(base.sort, RefSort):
            cls = base.sort.cls
            if cls == w.self_sort.cls and self.is_self(base):
                if attr in w.self_fields:
                    key = "self." + attr
                    if key not in st.heap:
                        raise Unsupported(node, f"self.{attr} not initialised in state")
                    return [(st, st.heap[key])]
                if attr in self.self_consts:
                    return [(st, self.self_consts[attr])]
                return [(st, BoundMethod(base, attr))]
            sch = w.classes.get(cls)
            if sch is not None:
                if attr in sch.fields:
                    self.null_check(node, st, base)
                    f = sch.fields[attr]
                    if f.mutable:
                        arrs = st.heap[(cls, attr)]
                        return [(st, Val(f.sort, tuple(z3.Select(a, base.z) for a in arrs.t)))]
                    return [(st, Val(f.sort, tuple(fn(base.z) for fn in f.fns)))]
                if attr in sch.inline:
                    self.null_check(node, st, base)
                    return self.inline_property(node, st, base, sch.inline[attr])
                return [(st, BoundMethod(base, attr))]
        if isinstance(base, Val):
            return [(st, BoundMethod(base, attr))]
        raise Unsupported(node, f"attribute .{attr} on {base!r}")

    def is_self(self, v: Val) -> bool:
        return v.z.eq(self.self_val.z)

    def null_check(self, node, st, base: Val):
        if self.spec_mode or not self.safety:
            return
        self.oblige(st, "safe", f"nonnull@{getattr(node, 'lineno', 0)}:{ast.unparse(node)[:40]}",
                    base.z != base.sort.null, node)
        if not self.binders:
            st.assume(base.z != base.sort.null)

    # ---------------------------------------------------------------- operators
    def ev_UnaryOp(self, node, st):
        out = []
        for s, v in self.ev(node.operand, st):
            if isinstance(node.op, ast.Not):
                out.append((s, vbool(z3.Not(self.truthy(v)))))
            elif isinstance(node.op, ast.USub) and v.sort == INT:
                out.append((s, vint(-v.z)))
            else:
                raise Unsupported(node, "unary op")
        return out

    def has_effects(self, node) -> bool:
        """Conservative syntactic test: may evaluating `node` fork or change state?"""
        for sub in ast.walk(node):
            if isinstance(sub, ast.Call):
                f = sub.func
                if isinstance(f, ast.Name) and (f.id in ("len", "isinstance", "bool", "callable", "id", "str", "getattr", "hasattr")
                                                or f.id in self.world.specfns
                                                or f.id in ("forall", "exists", "implies", "iff", "old", "ite")):
                    continue
                if isinstance(f, ast.Attribute) and f.attr in ("startswith", "endswith", "get", "keys", "values", "items"):
                    continue
                if isinstance(f, ast.Attribute):
                    pc_ = self.world.by_method.get(f.attr)
                    if pc_ is not None and pc_.pure and getattr(pc_, "returns_expr", None) and not pc_.raises:
                        continue
                if isinstance(f, ast.Subscript) and isinstance(f.value, ast.Name) and f.value.id in ("forall", "exists"):
                    continue
                return True
            if isinstance(sub, (ast.Await, ast.NamedExpr)):
                if isinstance(sub, ast.Await) and not isinstance(sub.value, ast.Call):
                    continue
                if isinstance(sub, ast.NamedExpr):
                    return True
        return False

    def ev_BoolOp(self, node, st):
        is_and = isinstance(node.op, ast.And)
        # results: list of (state, value)
        cur = self.ev(node.values[0], st)
        for nxt_node in node.values[1:]:
            out = []
            eff = self.spec_mode is False and self.has_effects(nxt_node)
            for s, lv in cur:
                lt = self.truthy(lv)
                if eff:
                    # fork
                    s_short = s.copy().assume(z3.Not(lt) if is_and else lt)
                    if self.feasible(s_short):
                        out.append((s_short, lv))
                    s_eval = s.copy().assume(lt if is_and else z3.Not(lt))
                    if self.feasible(s_eval):
                        out += self.ev(nxt_node, s_eval)
                else:
                    # In code mode the right operand is only *evaluated* when the
                    # left does not short-circuit: safety obligations inside it
                    # are generated under that assumption.
                    s_r = s.copy().assume(lt if is_and else z3.Not(lt))
                    rr = self.ev(nxt_node, s_r)
                    if len(rr) != 1:
                        raise Unsupported(node, "forking operand in pure boolean operator")
                    rv = rr[0][1]
                    out.append((s, self.bool_combine(is_and, lt, lv, rv, node)))
            cur = out
        return cur

    def bool_combine(self, is_and, lt, lv, rv, node):
        if isinstance(lv, Val) and isinstance(rv, Val) and lv.sort == rv.sort and lv.sort != BOOL:
            return self.ite(lt, rv, lv, node) if is_and else self.ite(lt, lv, rv, node)
        if isinstance(lv, Val) and isinstance(rv, Val) and lv.sort != rv.sort and lv.sort != BOOL and rv.sort != BOOL:
            # `x or default` with differing sorts (e.g. Opt[str] or str, None or Node)
            try:
                if is_and:
                    return self.ite(lt, rv, lv, node)
                return self.ite(lt, lv, rv, node)
            except Unsupported:
                pass
        rt = self.truthy(rv)
        return vbool(z3.And(lt, rt) if is_and else z3.Or(lt, rt))

    def ev_IfExp(self, node, st):
        out = []
        for s, c in self.ev(node.test, st):
            ct = self.truthy(c)
            if self.spec_mode or not (self.has_effects(node.body) or self.has_effects(node.orelse)):
                sa = s.copy().assume(ct)
                sb = s.copy().assume(z3.Not(ct))
                ra, rb = self.ev(node.body, sa), self.ev(node.orelse, sb)
                if len(ra) == 1 and len(rb) == 1 and isinstance(ra[0][1], Val) and isinstance(rb[0][1], Val):
                    try:
                        out.append((s, self.ite(ct, ra[0][1], rb[0][1], node)))
                        continue
                    except Unsupported:
                        pass
            s1 = s.copy().assume(ct)
            if self.feasible(s1):
                out += self.ev(node.body, s1)
            s2 = s.copy().assume(z3.Not(ct))
            if self.feasible(s2):
                out += self.ev(node.orelse, s2)
        return out

    def ev_Compare(self, node, st):
        out = []
        for s, left in self.ev(node.left, st):
            cur = [(s, left, z3.BoolVal(True))]
            for op, cmp_node in zip(node.ops, node.comparators):
                nxt = []
                for s1, lv, acc in cur:
                    for s2, rv in self.ev(cmp_node, s1):
                        nxt.append((s2, rv, z3.And(acc, self.compare(op, lv, rv, node))))
                cur = nxt
            out += [(s1, vbool(z3.simplify(acc))) for s1, _, acc in cur]
        return out

    def compare(self, op, a, b, node):
        if isinstance(op, (ast.Eq, ast.Is)):
            return self.equal(a, b, node)
        if isinstance(op, (ast.NotEq, ast.IsNot)):
            return z3.Not(self.equal(a, b, node))
        if isinstance(op, ast.Lt):
            return self.less(a, b, True, node)
        if isinstance(op, ast.LtE):
            return self.less(a, b, False, node)
        if isinstance(op, ast.Gt):
            return self.less(b, a, True, node)
        if isinstance(op, ast.GtE):
            return self.less(b, a, False, node)
        if isinstance(op, ast.In):
            return self.contains(a, b, node)
        if isinstance(op, ast.NotIn):
            return z3.Not(self.contains(a, b, node))
        raise Unsupported(node, "comparison operator")

    def ev_BinOp(self, node, st):
        out = []
        for s, a in self.ev(node.left, st):
            for s2, b in self.ev(node.right, s):
                self.cur_st = s2
                out.append((s2, self.binop(node, a, b)))
        return out

    def binop(self, node, a, b):
        op = node.op
        if isinstance(a, Val) and isinstance(b, Val):
            if a.sort == INT and b.sort == INT:
                if isinstance(op, ast.Add):
                    return vint(a.z + b.z)
                if isinstance(op, ast.Sub):
                    return vint(a.z - b.z)
                if isinstance(op, ast.Mult):
                    return vint(a.z * b.z)
            if a.sort == STR and b.sort == STR and isinstance(op, ast.Add):
                return vstr(z3.Concat(a.z, b.z))
            if isinstance(a.sort, ListSort) and a.sort == b.sort and isinstance(op, ast.Add):
                return self.concat_lists(self.cur_st, a, b)
            if isinstance(a.sort, SetSort) and a.sort == b.sort:
                if isinstance(op, ast.BitAnd):
                    return set_lambda(a.sort.elem, lambda y: z3.And(z3.Select(a.t[0], y), z3.Select(b.t[0], y)))
                if isinstance(op, ast.BitOr):
                    return set_lambda(a.sort.elem, lambda y: z3.Or(z3.Select(a.t[0], y), z3.Select(b.t[0], y)))
                if isinstance(op, ast.Sub):
                    return set_lambda(a.sort.elem, lambda y: z3.And(z3.Select(a.t[0], y), z3.Not(z3.Select(b.t[0], y))))
            if a.sort == OPAQUE and b.sort == OPAQUE and isinstance(op, (ast.Div, ast.Mult, ast.Add, ast.Sub)) \
                    and isinstance(node.right, ast.Constant) and isinstance(node.right.value, float) and node.right.value != 0:
                # float arithmetic with a non-zero literal: floats are not modelled, the result is an unconstrained opaque value
                return fresh(OPAQUE, "float")
        raise Unsupported(node, f"binary op on {getattr(a, 'sort', a)} / {getattr(b, 'sort', b)}")

    # ---------------------------------------------------------------- subscript
    def ev_Subscript(self, node, st):
        # spec quantifier syntax forall[Sort,...]
        if isinstance(node.value, ast.Name) and node.value.id in ("forall", "exists"):
            sorts = node.slice.elts if isinstance(node.slice, ast.Tuple) else [node.slice]
            return [(st, SpecFnRef(node.value.id + ":" + ",".join(ast.unparse(x) for x in sorts)))]
        out = []
        for s, base in self.ev(node.value, st):
            if isinstance(node.slice, ast.Slice):
                out += self.ev_slice(node, s, base)
                continue
            for s2, idx in self.ev(node.slice, s):
                out += self.subscript(node, s2, base, idx)
        return out

    def subscript(self, node, st, base, idx):
        if isinstance(base, PyTuple) and isinstance(node.slice, ast.Constant):
            return [(st, base.items[node.slice.value])]
        if isinstance(base, Val):
            bs = base.sort
            if isinstance(bs, ListSort) and idx.sort == INT:
                n = base.t[0]
                i = idx.z
                if z3.is_int_value(i) and i.as_long() < 0:
                    i = n + i
                elif isinstance(node.slice, ast.UnaryOp):
                    i = z3.If(i < 0, n + i, i)
                if not self.spec_mode:
                    ok = z3.And(0 <= i, i < n)
                    return self.guarded(node, st, ok, "IndexError", lambda s: list_get(base, i), f"index@{node.lineno}")
                return [(st, list_get(base, i))]
            if isinstance(bs, DictSort):
                k = idx
                if isinstance(k.sort, OptSort) and k.sort.inner == bs.key:
                    k = opt_val(k)
                k = self.coerce(k, bs.key, node)
                if not self.spec_mode:
                    return self.guarded(node, st, dict_has(base, k), "KeyError", lambda s: dict_get(base, k), f"key@{node.lineno}")
                return [(st, dict_get(base, k))]
            if isinstance(bs, MapSort):
                return [(st, Val(bs.val, (z3.Select(base.z, self.coerce(idx, bs.key, node).z),)))]
            if bs == STR and idx.sort == INT:
                i = idx.z
                n = z3.Length(base.z)
                if z3.is_int_value(i) and i.as_long() < 0:
                    i = n + i
                return [(st, vstr(z3.SubString(base.z, i, 1)))]
        raise Unsupported(node, f"subscript on {base!r}")

    def guarded(self, node, st, ok, exc, mk_val, label):
        """Value when `ok`, else the python exception `exc` is raised (a path)."""
        out = []
        s_ok = st.copy().assume(ok)
        s_bad = st.copy().assume(z3.Not(ok))
        if self.feasible(s_bad):
            self.raised.append(Outcome("raise", s_bad, ExcVal(exc)))
        if self.feasible(s_ok):
            out.append((s_ok, mk_val(s_ok)))
        return out

    def ev_slice(self, node, st, base):
        sl = node.slice
        if sl.step is not None:
            raise Unsupported(node, "slice step")

        def bound(b):
            if b is None:
                return None
            v = self.ev1(b, st)
            return v.z

        lo, hi = bound(sl.lower), bound(sl.upper)
        if isinstance(base, Val) and base.sort == STR:
            n = z3.Length(base.z)

            def norm(x, default):
                if x is None:
                    return default
                xn = z3.If(x < 0, n + x, x)
                return z3.If(xn < 0, 0, z3.If(xn > n, n, xn))
            a, b = norm(lo, z3.IntVal(0)), norm(hi, n)
            ln = z3.If(b - a < 0, 0, b - a)
            return [(st, vstr(z3.SubString(base.z, a, ln)))]
        if isinstance(base, Val) and isinstance(base.sort, ListSort):
            n = base.t[0]

            def norm(x, default):
                if x is None:
                    return default
                xn = z3.If(x < 0, n + x, x)
                return z3.If(xn < 0, 0, z3.If(xn > n, n, xn))
            a, b = norm(lo, z3.IntVal(0)), norm(hi, n)
            i = z3.Int(fresh_name("sl"))
            ln = z3.If(b - a < 0, 0, b - a)
            arrs = tuple(z3.Lambda([i], z3.Select(x, i + a)) for x in base.t[1:])
            return [(st, Val(base.sort, (ln,) + arrs))]
        raise Unsupported(node, "slice of unsupported value")

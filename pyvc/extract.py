"""Mechanical extraction of the function to verify from the *current* working
tree of /repo.  Nothing is copied or rewritten by hand: the `ast` of the real
file is located by qualified name on every run, and exactly the following is
dropped before symbolic execution (recorded per function in the evidence):

  * the docstring,
  * decorators @staticmethod/@classmethod/@property/@overload/@functools.wraps (binding only),
  * type annotations (used only as sort hints),
  * every `logger.<level>(...)` / `logging.<level>(...)` expression statement,
    after checking that its arguments are side-effect free (A-log),
  * the keywords `async` / `await` (assumption A-seq).
"""
from __future__ import annotations

import ast
import hashlib
import os
from dataclasses import dataclass, field
from typing import Dict, List, Optional, Tuple

REPO_SRC = os.environ.get("VERIF_REPO_SRC", "/repo/src")

_LOG_LEVELS = {"debug", "info", "warning", "error", "exception", "critical", "log"}
_PURE_CALLS = {"len", "type", "sorted", "list", "repr", "str", "join", "getattr", "id", "keys", "format", "title"}


class ExtractError(Exception):
    pass


@dataclass
class Extracted:
    target: str
    path: str
    lineno: int
    end_lineno: int
    sha256: str
    node: ast.AST                     # FunctionDef / AsyncFunctionDef (stripped body)
    is_async: bool
    dropped: List[str] = field(default_factory=list)
    class_name: Optional[str] = None
    decorators: List[str] = field(default_factory=list)
    source: str = ""


_module_cache: Dict[str, Tuple[str, ast.Module]] = {}


def module_path(module: str) -> str:
    return os.path.join(REPO_SRC, *module.split(".")) + ".py"


def load_module(module: str) -> Tuple[str, ast.Module]:
    path = module_path(module)
    if path not in _module_cache:
        with open(path, encoding="utf-8") as fh:
            src = fh.read()
        _module_cache[path] = (src, ast.parse(src, path))
    return _module_cache[path]


def clear_cache():
    _module_cache.clear()


def _find(body, parts):
    name = parts[0]
    found = None
    for n in body:
        if isinstance(n, (ast.FunctionDef, ast.AsyncFunctionDef, ast.ClassDef)) and n.name == name:
            if len(parts) == 1:
                # python keeps the LAST definition; @overload stubs are typing-only
                if not isinstance(n, ast.ClassDef) and any(ast.unparse(d).split(".")[-1] == "overload" for d in n.decorator_list):
                    continue
                found = n
            else:
                return _find(n.body, parts[1:])
    return found


def _is_logger_call(stmt: ast.stmt) -> bool:
    if not isinstance(stmt, ast.Expr) or not isinstance(stmt.value, ast.Call):
        return False
    f = stmt.value.func
    return (
        isinstance(f, ast.Attribute)
        and f.attr in _LOG_LEVELS
        and isinstance(f.value, ast.Name)
        and f.value.id in ("logger", "logging")
    )


def _check_log_args_pure(call: ast.Call, where: str):
    for sub in ast.walk(call):
        if sub is call:
            continue
        if isinstance(sub, ast.Call):
            f = sub.func
            nm = f.id if isinstance(f, ast.Name) else (f.attr if isinstance(f, ast.Attribute) else None)
            if nm not in _PURE_CALLS:
                raise ExtractError(
                    f"{where}: logger call argument contains call to '{nm}' - A-log cannot be assumed"
                )
        if isinstance(sub, (ast.Await, ast.Yield, ast.YieldFrom, ast.NamedExpr)):
            raise ExtractError(f"{where}: logger call with effectful argument")


class _LoopifyReducers(ast.NodeTransformer):
    """`return all(E for x in XS)` / `return any(E for x in XS)` whose element E calls a method of `self`
    (i.e. may have effects or raise) is rewritten into the loop python executes anyway:

        for x in XS:                      for x in XS:
            if not E: return False            if E: return True
        return True                       return False

    Same evaluation order, same short-circuit, same exceptions.  The loop then takes an ordinary loop invariant."""

    def __init__(self):
        self.n = 0

    def _rewrite(self, stmt):
        v = stmt.value
        if not (isinstance(v, ast.Call) and isinstance(v.func, ast.Name) and v.func.id in ("all", "any")
                and len(v.args) == 1 and not v.keywords and isinstance(v.args[0], ast.GeneratorExp)):
            return None
        g = v.args[0]
        if len(g.generators) != 1 or g.generators[0].ifs or g.generators[0].is_async:
            return None
        if not any(isinstance(c, ast.Call) and isinstance(c.func, ast.Attribute) and isinstance(c.func.value, ast.Name)
                   and c.func.value.id == "self" for c in ast.walk(g.elt)):
            return None
        is_all = v.func.id == "all"
        test = ast.UnaryOp(op=ast.Not(), operand=g.elt) if is_all else g.elt
        loop = ast.For(target=g.generators[0].target, iter=g.generators[0].iter,
                       body=[ast.If(test=test, body=[ast.Return(value=ast.Constant(value=not is_all))], orelse=[])],
                       orelse=[], type_comment=None)
        tail = ast.Return(value=ast.Constant(value=is_all))
        for n_ in (loop, tail):
            ast.copy_location(n_, stmt)
            ast.fix_missing_locations(n_)
        self.n += 1
        return [loop, tail]

    def _body(self, body):
        out = []
        for s_ in body:
            s_ = self.visit(s_)
            r = self._rewrite(s_) if isinstance(s_, ast.Return) and s_.value is not None else None
            out.extend(r if r else [s_])
        return out

    def generic_visit(self, node):
        super().generic_visit(node)
        for fld in ("body", "orelse", "finalbody"):
            b = getattr(node, fld, None)
            if isinstance(b, list) and b and isinstance(b[0], ast.stmt):
                setattr(node, fld, self._body(b))
        if isinstance(node, ast.Try):
            for h in node.handlers:
                h.body = self._body(h.body)
        return node


class _Strip(ast.NodeTransformer):
    def __init__(self, where, dropped):
        self.where = where
        self.dropped = dropped
        self.nlog = 0

    def _strip_body(self, body):
        out = []
        for s in body:
            if _is_logger_call(s):
                _check_log_args_pure(s.value, self.where)
                self.nlog += 1
                continue
            out.append(self.visit(s))
        if not out:
            out = [ast.Pass()]
        return out

    def generic_visit(self, node):
        for fld in ("body", "orelse", "finalbody"):
            b = getattr(node, fld, None)
            if isinstance(b, list) and b and isinstance(b[0], ast.stmt):
                setattr(node, fld, self._strip_body(b) if (b or fld == "body") else b)
        if isinstance(node, ast.Try):
            for h in node.handlers:
                h.body = self._strip_body(h.body)
        return node

    def visit_FunctionDef(self, node):
        return self.generic_visit(node)

    visit_AsyncFunctionDef = visit_FunctionDef


def extract(target: str) -> Extracted:
    module, qual = target.split(":")
    src, tree = load_module(module)
    parts = qual.split(".")
    node = _find(tree.body, parts)
    if node is None or isinstance(node, ast.ClassDef):
        raise ExtractError(f"{target}: function not found in {module_path(module)}")
    seg = ast.get_source_segment(src, node) or ""
    sha = hashlib.sha256(seg.encode()).hexdigest()
    import copy as _copy
    node2 = _copy.deepcopy(node)
    dropped = []
    # docstring
    if (node2.body and isinstance(node2.body[0], ast.Expr)
            and isinstance(getattr(node2.body[0], "value", None), ast.Constant)
            and isinstance(node2.body[0].value.value, str)):
        node2.body = node2.body[1:] or [ast.Pass()]
        dropped.append("docstring")
    decos = []
    for d in node2.decorator_list:
        nm = ast.unparse(d)
        decos.append(nm)
        base = nm.split("(")[0]
        if base not in ("staticmethod", "classmethod", "property", "overload", "functools.wraps"):
            raise ExtractError(f"{target}: unsupported decorator @{nm}")
    if decos:
        dropped.append("decorators(binding only): " + ",".join(decos))
    st = _Strip(target, dropped)
    st.generic_visit(node2)
    # nested function docstrings
    for sub in ast.walk(node2):
        if isinstance(sub, (ast.FunctionDef, ast.AsyncFunctionDef)) and sub is not node2:
            if (sub.body and isinstance(sub.body[0], ast.Expr)
                    and isinstance(getattr(sub.body[0], "value", None), ast.Constant)
                    and isinstance(sub.body[0].value.value, str)):
                sub.body = sub.body[1:] or [ast.Pass()]
    if st.nlog:
        dropped.append(f"{st.nlog} logger call statement(s) (A-log)")
    lr = _LoopifyReducers()
    lr.generic_visit(node2)
    if lr.n:
        dropped.append(f"rewritten: {lr.n} `return all/any(<generator calling self.*>)` as the equivalent short-circuit loop")
    is_async = isinstance(node, ast.AsyncFunctionDef)
    if is_async or any(isinstance(s, ast.Await) for s in ast.walk(node2)):
        dropped.append("async/await keywords (A-seq)")
    dropped.append("type annotations (sort hints only)")
    cls = parts[-2] if len(parts) >= 2 else None
    return Extracted(
        target=target, path=module_path(module), lineno=node.lineno,
        end_lineno=node.end_lineno, sha256=sha, node=node2, is_async=is_async,
        dropped=dropped, class_name=cls, decorators=decos, source=seg,
    )


def module_str_constants(module: str) -> Dict[str, str]:
    """Module-level NAME = "literal" assignments (and frozenset/tuple of literals)."""
    _, tree = load_module(module)
    out = {}
    for n in tree.body:
        if isinstance(n, ast.Assign) and len(n.targets) == 1 and isinstance(n.targets[0], ast.Name):
            if isinstance(n.value, ast.Constant) and isinstance(n.value.value, (str, int)):
                out[n.targets[0].id] = n.value.value
    return out


def class_defines(module: str, cls: str, names) -> List[str]:
    """Which of `names` does class `cls` define (methods or attributes)?"""
    _, tree = load_module(module)
    c = _find(tree.body, [cls])
    found = []
    if c is None:
        return found
    for n in c.body:
        if isinstance(n, (ast.FunctionDef, ast.AsyncFunctionDef)) and n.name in names:
            found.append(n.name)
    return found


def resolve_global(module: str, name: str, _depth: int = 0):
    """Value of a module-level constant `name` visible in `module` (a literal,
    or a tuple/frozenset of literals), following `from .x import name`.
    Returns (True, value) or (False, None)."""
    if _depth > 4:
        return False, None
    try:
        _, tree = load_module(module)
    except OSError:
        return False, None
    for n in tree.body:
        if isinstance(n, (ast.Assign, ast.AnnAssign)):
            tgts = n.targets if isinstance(n, ast.Assign) else [n.target]
            if any(isinstance(t, ast.Name) and t.id == name for t in tgts) and n.value is not None:
                v = n.value
                if isinstance(v, ast.Call) and isinstance(v.func, ast.Name) and v.func.id in ("frozenset", "set", "tuple") and len(v.args) == 1:
                    v = v.args[0]
                try:
                    val = ast.literal_eval(v)
                except Exception:
                    return False, None
                if isinstance(val, (set, frozenset, list)):
                    val = tuple(sorted(val)) if isinstance(val, (set, frozenset)) else tuple(val)
                return True, val
        if isinstance(n, ast.ImportFrom) and n.level >= 1:
            for a in n.names:
                if (a.asname or a.name) == name:
                    base = module.split(".")[: -n.level]
                    tgt = ".".join(base + ([n.module] if n.module else []))
                    return resolve_global(tgt, a.name, _depth + 1)
    return False, None

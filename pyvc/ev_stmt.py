"""Statement execution: paths, loops with invariants, exceptions."""
from __future__ import annotations

import ast
from typing import Any, List

import z3

from .sorts import (BOOL, INT, NONE, OPAQUE, STR, VNONE, DictSort, ListSort,
                    NoneSort, OptSort, Ref, RefSort, SetSort, Sort, Val, fresh,
                    fresh_name, list_get, vbool, vint)
from .state import (BoundMethod, Closure, ExcVal, Outcome, PyTuple, St,
                    Tagged, Unsupported)
from .world import LoopSpec


def assigned_names(stmts) -> List[str]:
    names = []

    def tgt(t):
        if isinstance(t, ast.Name):
            names.append(t.id)
        elif isinstance(t, (ast.Tuple, ast.List)):
            for e in t.elts:
                tgt(e)

    class V(ast.NodeVisitor):
        def visit_Assign(self, n):
            for t in n.targets:
                tgt(t)
            self.generic_visit(n)

        def visit_AnnAssign(self, n):
            tgt(n.target)
            self.generic_visit(n)

        def visit_AugAssign(self, n):
            tgt(n.target)
            self.generic_visit(n)

        def visit_For(self, n):
            tgt(n.target)
            self.generic_visit(n)

        def visit_Call(self, n):
            f = n.func
            if isinstance(f, ast.Attribute) and isinstance(f.value, ast.Name) and f.attr in (
                    "append", "extend", "sort", "reverse", "add", "discard", "update", "clear", "pop", "remove", "setdefault"):
                names.append(f.value.id)
            self.generic_visit(n)

        def visit_FunctionDef(self, n):
            names.append(n.name)

        def visit_Lambda(self, n):
            pass

        def visit_ExceptHandler(self, n):
            if n.name:
                names.append(n.name)
            self.generic_visit(n)

    v = V()
    for s in stmts:
        v.visit(s)
    return list(dict.fromkeys(names))


class StmtMixin:
    # ---------------------------------------------------------------- blocks
    def exec_block(self, stmts, st: St) -> List[Outcome]:
        cur = [st]
        done: List[Outcome] = []
        for s in stmts:
            nxt = []
            for c in cur:
                for o in self.exec_stmt(s, c):
                    if o.kind == "fall":
                        nxt.append(o.st)
                    else:
                        done.append(o)
            cur = nxt
            if not cur:
                break
        return done + [Outcome("fall", c) for c in cur]

    def _ghost_key(self, node, table):
        if not table or isinstance(node, (ast.If, ast.While, ast.Try, ast.FunctionDef, ast.AsyncFunctionDef)):
            return None
        if isinstance(node, (ast.For, ast.AsyncFor)):
            # a whole loop is addressed by its header: "for <target> in <iter>"
            key = f"for {ast.unparse(node.target)} in {ast.unparse(node.iter)}"
            return key if key in table else None
        key = ast.unparse(node).strip()
        occ = getattr(self, "stmt_occ", {}).get(id(node))
        if occ is not None and f"{key}#{occ}" in table:
            return f"{key}#{occ}"
        if key in table:
            return key
        for tk in table:          # "<prefix>..." addresses the (long) statement that starts with <prefix>
            if tk.endswith("...") and key.startswith(tk[:-3]):
                return tk
        return None

    def _run_ghost(self, node, st, items, key):
        for k_, asg in enumerate(items):
            if asg.startswith("assert"):
                tags = None
                body = asg[6:].lstrip()
                if body.startswith("["):
                    tl, body = body[1:].split("]", 1)
                    tags = [t.strip() for t in tl.split(",")]
                g = self.spec_bool(body, st)
                lab = f"lemma#{k_}@{key[:30]}"
                if tags:
                    lab = tags[0] + "/" + lab
                self.oblige(st, "hint", lab, g, node)
                st.assume(Tagged(g, tags) if tags else g)
                continue
            name, expr = asg.split("=", 1)
            name = name.strip()
            val = self.spec_eval(expr.strip(), st)
            if name.startswith("self."):
                self.write_heap(st, name, val)
            else:
                st.env[name] = val

    def exec_stmt(self, node, st: St) -> List[Outcome]:
        m = getattr(self, "ex_" + type(node).__name__, None)
        if m is None:
            raise Unsupported(node, f"statement {type(node).__name__}")
        self.stmt_count += 1
        gb = self.contract.ghost_before if self.contract else None
        kb = self._ghost_key(node, gb)
        if kb:
            self.ghost_hit.add(("before", kb))
            self._run_ghost(node, st, gb[kb], kb)
        saved = self.raised
        self.raised = []
        try:
            outs = m(node, st)
            outs = outs + self.raised
        finally:
            self.raised = saved
        ga = self.contract.ghost_after if self.contract else None
        ka = self._ghost_key(node, ga)
        if ka:
            self.ghost_hit.add(("after", ka))
            for o in outs:
                if o.kind == "fall":
                    self._run_ghost(node, o.st, ga[ka], ka)
        return outs

    # evaluate an expression in statement context
    def evs(self, node, st):
        return self.ev(node, st)

    # ---------------------------------------------------------------- simple statements
    def ex_Pass(self, node, st):
        return [Outcome("fall", st)]

    def ex_Expr(self, node, st):
        if isinstance(node.value, ast.Constant):
            return [Outcome("fall", st)]
        return [Outcome("fall", s) for s, _ in self.evs(node.value, st)]

    def ex_Return(self, node, st):
        if node.value is None:
            return [Outcome("return", st, VNONE)]
        self.expected_sort = self.contract_result_sort()
        try:
            return [Outcome("return", s, v) for s, v in self.evs(node.value, st)]
        finally:
            self.expected_sort = None

    def ex_Break(self, node, st):
        return [Outcome("break", st)]

    def ex_Continue(self, node, st):
        return [Outcome("continue", st)]

    def ex_Raise(self, node, st):
        if node.exc is None:
            if st.exc is None:
                raise Unsupported(node, "bare raise outside handler")
            return [Outcome("raise", st, st.exc)]
        outs = []
        for s, v in self.evs(node.exc, st):
            if isinstance(v, ExcVal):
                outs.append(Outcome("raise", s, v))
            else:
                from .state import ClassRef
                if isinstance(v, ClassRef):
                    outs.append(Outcome("raise", s, ExcVal(v.name)))
                else:
                    raise Unsupported(node, f"raise of {v!r}")
        return outs

    def sort_from_annotation(self, ann) -> Sort:
        if ann is None:
            return None
        txt = ast.unparse(ann)
        return self.annotation_sort(txt)

    def annotation_sort(self, txt: str):
        txt = txt.strip().strip('"').strip("'")
        w = self.world
        m = getattr(w, "annotation_hook", None)
        if m:
            r = m(txt)
            if r is not None:
                return r
        if txt in ("int",):
            return INT
        if txt == "str":
            return STR
        if txt == "bool":
            return BOOL
        if txt in w.py2sort:
            return w.py2sort[txt]
        if txt.startswith("Optional[") and txt.endswith("]"):
            inner = self.annotation_sort(txt[9:-1])
            if inner is None:
                return None
            return inner if isinstance(inner, RefSort) else OptSort(inner)
        if txt.startswith("List[") and txt.endswith("]"):
            inner = self.annotation_sort(txt[5:-1])
            return ListSort(inner) if inner is not None else None
        if txt.startswith("Set[") and txt.endswith("]"):
            inner = self.annotation_sort(txt[4:-1])
            return SetSort(inner) if inner is not None else None
        if txt.startswith("Dict[") and txt.endswith("]"):
            parts = txt[5:-1].split(",", 1)
            k, v = self.annotation_sort(parts[0]), self.annotation_sort(parts[1])
            return DictSort(k, v) if k is not None and v is not None else None
        return None

    def ex_AnnAssign(self, node, st):
        if node.value is None:
            return [Outcome("fall", st)]
        so = None
        if isinstance(node.target, ast.Name):
            so = self.contract.locals.get(node.target.id) or self.sort_from_annotation(node.annotation)
        self.expected_sort = so
        try:
            res = self.evs(node.value, st)
        finally:
            self.expected_sort = None
        outs = []
        for s, v in res:
            if so is not None and isinstance(v, Val) and v.sort != so:
                v = self.coerce(v, so, node)
            self.assign_target(node.target, v, s)
            outs.append(Outcome("fall", s))
        return outs

    def ex_Assign(self, node, st):
        so = None
        if len(node.targets) == 1 and isinstance(node.targets[0], ast.Name):
            nm = node.targets[0].id
            so = self.contract.locals.get(nm)
            if so is None and nm in st.env and isinstance(st.env[nm], Val):
                so = st.env[nm].sort
        self.expected_sort = so
        try:
            res = self.evs(node.value, st)
        finally:
            self.expected_sort = None
        outs = []
        for s, v in res:
            for t in node.targets:
                vv = v
                if so is not None and isinstance(v, Val) and v.sort != so:
                    vv = self.coerce(v, so, node)
                self.assign_target(t, vv, s)
            outs.append(Outcome("fall", s))
        return outs

    def ex_AugAssign(self, node, st):
        fake = ast.BinOp(left=self.target_as_expr(node.target), op=node.op, right=node.value)
        ast.copy_location(fake, node)
        ast.fix_missing_locations(fake)
        outs = []
        for s, v in self.evs(fake, st):
            self.assign_target(node.target, v, s)
            outs.append(Outcome("fall", s))
        return outs

    def target_as_expr(self, t):
        import copy
        e = copy.deepcopy(t)
        for sub in ast.walk(e):
            if hasattr(sub, "ctx"):
                sub.ctx = ast.Load()
        return e

    def assign_target(self, t, v, st: St):
        if isinstance(t, ast.Name):
            st.env[t.id] = v
            return
        if isinstance(t, (ast.Tuple, ast.List)):
            if not isinstance(v, PyTuple) or len(v.items) != len(t.elts):
                raise Unsupported(t, "tuple unpacking of non-tuple")
            for e, x in zip(t.elts, v.items):
                self.assign_target(e, x, st)
            return
        if isinstance(t, ast.Attribute):
            base = self.ev1(t.value, st)
            if isinstance(base, Val) and isinstance(base.sort, RefSort):
                w = self.world
                if base.sort.cls == w.self_sort.cls and self.is_self(base):
                    f = w.self_fields.get(t.attr)
                    if f is None:
                        raise Unsupported(t, f"assignment to unmodelled self.{t.attr}")
                    self.write_heap(st, "self." + t.attr, self.coerce(v, f.sort, t))
                    return
                sch = w.classes.get(base.sort.cls)
                if sch and t.attr in sch.fields and sch.fields[t.attr].mutable:
                    f = sch.fields[t.attr]
                    cur = st.heap[(base.sort.cls, t.attr)]
                    vv = self.coerce(v, f.sort, t)
                    self.write_heap(st, (base.sort.cls, t.attr),
                                    Val(cur.sort, tuple(z3.Store(a, base.z, x) for a, x in zip(cur.t, vv.t))))
                    return
            raise Unsupported(t, f"assignment to attribute {ast.unparse(t)}")
        if isinstance(t, ast.Subscript):
            base_node = t.value
            if isinstance(base_node, ast.Name):
                tgt = ("env", base_node.id)
            elif isinstance(base_node, ast.Attribute) and isinstance(base_node.value, ast.Name) and base_node.value.id == "self":
                tgt = ("heap", "self." + base_node.attr)
            else:
                raise Unsupported(t, "subscript assignment target")
            cur = self.load_lvalue(tgt, st)
            k = self.ev1(t.slice, st)
            if isinstance(cur.sort, DictSort):
                self.store_lvalue(tgt, st, self.dict_store(st, cur, self.coerce(k, cur.sort.key, t), self.coerce(v, cur.sort.val, t)))
                return
            raise Unsupported(t, "subscript assignment on non-dict")
        raise Unsupported(t, "assignment target")

    def dict_store(self, st, d: Val, k: Val, v: Val) -> Val:
        klen, karr, has = d.t[0], d.t[1], d.t[2]
        present = z3.Select(has, k.z)
        nklen = z3.If(present, klen, klen + 1)
        nkarr = z3.If(present, karr, z3.Store(karr, klen, k.z))
        nhas = z3.Store(has, k.z, z3.BoolVal(True))
        vals = tuple(z3.Store(a, k.z, x) for a, x in zip(d.t[3:], v.t))
        return Val(d.sort, (nklen, nkarr, nhas) + vals)

    def ex_FunctionDef(self, node, st):
        st.env[node.name] = Closure(node, st.env)
        return [Outcome("fall", st)]

    ex_AsyncFunctionDef = ex_FunctionDef

    def ex_Global(self, node, st):
        raise Unsupported(node, "global")

    def ex_Nonlocal(self, node, st):
        return [Outcome("fall", st)]

    def ex_Assert(self, node, st):
        outs = []
        for s, v in self.evs(node.test, st):
            self.oblige(s, "assert", f"assert@{node.lineno}", self.truthy(v), node)
            s.assume(self.truthy(v))
            outs.append(Outcome("fall", s))
        return outs

    # ---------------------------------------------------------------- if
    def ex_If(self, node, st):
        outs = []
        for s, c in self.evs(node.test, st):
            ct = self.truthy(c)
            s1 = s.copy().assume(ct)
            self.flow_refine(node.test, s1, True)
            if self.feasible(s1):
                outs += self.exec_block(node.body, s1)
            s2 = s.copy().assume(z3.Not(ct))
            self.flow_refine(node.test, s2, False)
            if self.feasible(s2):
                outs += self.exec_block(node.orelse, s2) if node.orelse else [Outcome("fall", s2)]
        return outs

    def flow_refine(self, test, st, branch):
        h = getattr(self.world, "refine_hook", None)
        if h:
            h(self, test, st, branch)

    # ---------------------------------------------------------------- loops
    def loop_spec(self, node) -> LoopSpec:
        o = self.loop_ord.get(id(node))
        return getattr(self, "cur_loops", self.contract.loops).get(o, LoopSpec()), o

    def heap_mods(self, stmts):
        """Heap locations possibly written by `stmts` (syntactic, via contracts)."""
        locs = []
        w = self.world
        for s in stmts:
            for sub in ast.walk(s):
                if isinstance(sub, ast.Call):
                    f = sub.func
                    if isinstance(f, ast.Attribute):
                        if isinstance(f.value, ast.Name) and f.value.id == "self":
                            c = self.lookup_contract(f.attr)
                            if c is not None:
                                locs += c.modifies
                            else:
                                locs += getattr(w, "external_mods", lambda n: [])("self." + f.attr)
                        elif (isinstance(f.value, ast.Attribute) and isinstance(f.value.value, ast.Name)
                              and f.value.value.id == "self" and f.value.attr in w.self_fields):
                            if f.attr in ("add", "discard", "update", "clear", "append", "put", "put_nowait", "get", "extend", "pop", "remove", "setdefault", "popleft", "difference_update"):
                                locs.append("self." + f.value.attr)
                        else:
                            locs += getattr(w, "external_mods", lambda n: [])("." + f.attr)
                    else:
                        locs += getattr(w, "external_mods", lambda n: [])("<call>")
                for t in getattr(sub, "targets", []) if isinstance(sub, ast.Assign) else ([sub.target] if isinstance(sub, (ast.AugAssign, ast.AnnAssign)) else []):
                    if isinstance(t, ast.Attribute):
                        if isinstance(t.value, ast.Name) and t.value.id == "self" and t.attr in w.self_fields:
                            locs.append("self." + t.attr)
                        else:
                            for cls, sch in w.classes.items():
                                if t.attr in sch.fields and sch.fields[t.attr].mutable:
                                    locs.append((cls, t.attr))
                    if isinstance(t, ast.Subscript) and isinstance(t.value, ast.Attribute) and isinstance(t.value.value, ast.Name) and t.value.value.id == "self":
                        locs.append("self." + t.value.attr)
        return list(dict.fromkeys(locs))

    def havoc_for_loop(self, st, node):
        body = list(node.body) + list(node.orelse)
        names = assigned_names(body)
        ga = {}
        ghost_hav = []
        if self.contract:
            for tbl in (self.contract.ghost_after, self.contract.ghost_before):
                for k_, v_ in tbl.items():
                    ga.setdefault(k_, [])
                    ga[k_] = ga[k_] + v_
        if ga:
            for stmt in body:
                for sub in ast.walk(stmt):
                    if isinstance(sub, ast.stmt) and not isinstance(sub, (ast.If, ast.For, ast.While, ast.Try)):
                        k0 = ast.unparse(sub).strip()
                        occ = getattr(self, "stmt_occ", {}).get(id(sub))
                        pref = [v_ for tk, v_ in ga.items() if tk.endswith("...") and k0.startswith(tk[:-3])]
                        for asg in ga.get(k0, []) + (ga.get(f"{k0}#{occ}", []) if occ is not None else []) + [a_ for v_ in pref for a_ in v_]:
                            if not asg.startswith("assert"):
                                nm = asg.split("=", 1)[0].strip()
                                if nm.startswith("self."):
                                    if nm in st.heap:
                                        self.havoc_loc(st, nm)
                                        ghost_hav.append(nm)
                                else:
                                    names.append(nm)
        for n in names:
            if n in st.env and isinstance(st.env[n], Val):
                st.env[n] = fresh(st.env[n].sort, n)
                self.assume_wf(st, st.env[n])
        hav = []
        for loc in self.heap_mods(body):
            if loc in st.heap:
                self.havoc_loc(st, loc)
                hav.append(loc)
        self.loop_havocked = getattr(self, "loop_havocked", {})
        self.loop_havocked[id(node)] = set(hav) | set(ghost_hav)
        return names

    def check_loop_writes(self, node, head: St, outs):
        """Soundness guard of the loop rule: every heap location a body path changed must be one the
        (syntactic) havoc analysis reset at the loop head - otherwise the state after the loop would
        silently keep its pre-loop value."""
        hav = getattr(self, "loop_havocked", {}).get(id(node), set())
        for o in outs:
            for loc, v1 in o.st.heap.items():
                v0 = head.heap.get(loc)
                if v0 is None or loc in hav:
                    continue
                if not all(a.eq(b) for a, b in zip(v0.t, v1.t)):
                    raise Unsupported(node, f"loop body writes {loc} which the loop havoc analysis did not reset")

    def check_invs(self, spec, st, kind, ordn, node, extra_env=None):
        s2 = st
        if extra_env:
            s2 = St(dict(st.env), st.heap, st.pc, st.pre, st.ghost)
            s2.env.update(extra_env)
        for k, inv in enumerate(spec.invariants):
            self.oblige(st, kind, f"loop{ordn}#{k}", self.spec_bool(inv, s2), node)

    def assume_invs(self, spec, st, extra_env=None):
        s2 = st
        if extra_env:
            s2 = St(dict(st.env), st.heap, st.pc, st.pre, st.ghost)
            s2.env.update(extra_env)
        for inv in spec.invariants:
            st.assume(self.spec_bool(inv, s2))

    def ex_For(self, node, st):
        spec, ordn = self.loop_spec(node)
        outs: List[Outcome] = []
        for s0, itv in self.evs(node.iter, st):
            src = self.iter_source(node, s0, itv)
            iname, sname = f"_i{ordn}", f"_n{ordn}"
            n = src.n
            s0.assume(n >= 0)
            def loopenv(i):
                env = {iname: vint(i), "_i": vint(i), sname: vint(n), "_n": vint(n)}
                if hasattr(src, "perm"):
                    env["_seq"] = src.perm
                    env[f"_seq{ordn}"] = src.perm
                elif isinstance(itv, Val) and isinstance(itv.sort, ListSort):
                    env["_seq"] = itv
                    env[f"_seq{ordn}"] = itv
                elif isinstance(itv, Val) and isinstance(itv.sort, DictSort):
                    from .sorts import dict_keys
                    env["_seq"] = dict_keys(itv)
                    env[f"_seq{ordn}"] = env["_seq"]
                return env
            # 1. init
            self.check_invs(spec, s0, "inv-init", ordn, node, loopenv(z3.IntVal(0)))
            # 2. arbitrary iteration
            sh = s0.copy()
            self.havoc_for_loop(sh, node)
            i = z3.Int(fresh_name(f"i{ordn}_"))
            sh.assume(z3.And(0 <= i, i < n))
            self.assume_invs(spec, sh, loopenv(i))
            sh.ghost = dict(sh.ghost)
            if self.feasible(sh):
                sb = sh.copy()
                sb.env.update(loopenv(i))
                self.assign_target(node.target, src.item_at(i), sb)
                body_outs = self.exec_block(node.body, sb)
                self.check_loop_writes(node, sb, body_outs)
                for o in body_outs:
                    if o.kind in ("fall", "continue"):
                        self.check_invs(spec, o.st, "inv-step", ordn, node, loopenv(i + 1))
                    elif o.kind == "break":
                        outs.append(Outcome("fall", o.st))
                    else:
                        outs.append(o)
            # 3. exit
            sx = s0.copy()
            self.havoc_for_loop(sx, node)
            self.assume_invs(spec, sx, loopenv(n))
            # the iterated sequence and its length stay addressable after the loop (ghost lemmas): _seq<k>, _n<k>
            for k_, v_ in loopenv(n).items():
                if k_.endswith(str(ordn)) and k_ not in ("_i", "_n", "_seq"):
                    sx.env[k_] = v_
            if self.feasible(sx):
                if node.orelse:
                    outs += self.exec_block(node.orelse, sx)
                else:
                    outs.append(Outcome("fall", sx))
        return outs

    ex_AsyncFor = ex_For

    def ex_While(self, node, st):
        spec, ordn = self.loop_spec(node)
        outs: List[Outcome] = []
        self.check_invs(spec, st, "inv-init", ordn, node)
        sh = st.copy()
        self.havoc_for_loop(sh, node)
        self.assume_invs(spec, sh)
        if not self.feasible(sh):
            return outs
        for s, c in self.evs(node.test, sh.copy()):
            ct = self.truthy(c)
            # body
            sb = s.copy().assume(ct)
            self.flow_refine(node.test, sb, True)
            if self.feasible(sb):
                m0 = None
                if spec.decreases:
                    m0 = self.spec_eval(spec.decreases, sb).z
                    self.oblige(sb, "decreases", f"loop{ordn}:bounded", m0 >= 0, node)
                body_outs = self.exec_block(node.body, sb)
                self.check_loop_writes(node, sb, body_outs)
                for o in body_outs:
                    if o.kind in ("fall", "continue"):
                        self.check_invs(spec, o.st, "inv-step", ordn, node)
                        if spec.decreases:
                            m1 = self.spec_eval(spec.decreases, o.st).z
                            self.oblige(o.st, "decreases", f"loop{ordn}:decr", m1 < m0, node)
                    elif o.kind == "break":
                        outs.append(Outcome("fall", o.st))
                    else:
                        outs.append(o)
            # exit
            sx = s.copy().assume(z3.Not(ct))
            self.flow_refine(node.test, sx, False)
            if self.feasible(sx):
                if node.orelse:
                    outs += self.exec_block(node.orelse, sx)
                else:
                    outs.append(Outcome("fall", sx))
        if not spec.decreases and not (self.allow_nonterminating or getattr(self.contract, "nonterminating", None)):
            self.oblige(st, "decreases", f"loop{ordn}:missing-measure", z3.BoolVal(False), node)
        return outs

    # ---------------------------------------------------------------- try
    def exc_matches(self, exc: ExcVal, handler) -> bool:
        if handler.type is None:
            return True
        names = []
        t = handler.type
        elts = t.elts if isinstance(t, ast.Tuple) else [t]
        for e in elts:
            names.append(ast.unparse(e).split(".")[-1])
        return any(self.world.is_subexc(exc.cls, n) for n in names)

    def ex_Try(self, node, st):
        outs: List[Outcome] = []
        body_outs = self.exec_block(node.body, st)
        after_handlers: List[Outcome] = []
        for o in body_outs:
            if o.kind == "raise":
                handled = False
                for h in node.handlers:
                    if self.exc_matches(o.val, h):
                        handled = True
                        s = o.st.copy()
                        prev_exc = s.exc
                        s.exc = o.val
                        if h.name:
                            s.env[h.name] = self.exc_value(o.val)
                        for ho in self.exec_block(h.body, s):
                            ho.st.exc = prev_exc
                            after_handlers.append(ho)
                        break
                if not handled:
                    after_handlers.append(o)
            elif o.kind == "fall" and node.orelse:
                after_handlers += self.exec_block(node.orelse, o.st)
            else:
                after_handlers.append(o)
        if not node.finalbody:
            return after_handlers
        for o in after_handlers:
            for fo in self.exec_block(node.finalbody, o.st):
                if fo.kind == "fall":
                    outs.append(Outcome(o.kind, fo.st, o.val))
                else:
                    outs.append(fo)   # finally overrides
        return outs

    def exc_value(self, exc: ExcVal):
        return fresh(OPAQUE, "exc")

    def ex_With(self, node, st):
        raise Unsupported(node, "with")

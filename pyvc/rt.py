"""Run-time contract checking of the REAL functions (bounded layer B).

`instrument(world, twins)` monkeypatches every function that has a sidecar
contract with a wrapper that evaluates the contract's `requires`, `ensures`,
`raises` and frame (`modifies`) clauses - the very same texts the symbolic
engine proves - on the concrete call.  Violations are recorded (never raised
into the library, whose `except Exception` blocks would swallow them).

Nothing in /repo is edited; the patching happens in the checking process only.
"""
from __future__ import annotations

import asyncio
import collections
import copy
import functools
import importlib
import inspect
import traceback
from dataclasses import dataclass, field
from typing import Any, Callable, Dict, List, Optional

from .concrete import Ctx, compile_spec


@dataclass
class Violation:
    kind: str          # pre | post | post-exc | frame | spec-error
    fn: str
    label: str
    text: str
    detail: str = ""
    call: Any = None   # description of the concrete call (args repr)

    def key(self):
        return f"{self.fn}/{self.kind}:{self.label}"


class Recorder:
    def __init__(self):
        self.violations: List[Violation] = []
        self.calls: Dict[str, int] = {}
        self.enabled = True
        self.context: Any = None       # set by the driver: what is being run

    def add(self, v: Violation):
        v.call = (self.context, v.call)
        self.violations.append(v)

    def reset(self):
        self.violations = []


REC = Recorder()
_installed: List[Any] = []


def _all_nodes(root):
    out, stack = [], [root]
    while stack:
        n = stack.pop()
        out.append(n)
        stack.extend(getattr(n, "states", {}).values())
    return out


def _find_machine(selfobj, env):
    m = getattr(selfobj, "machine", None)
    if m is not None and hasattr(m, "states"):
        return m
    for v in env.values():
        mm = getattr(v, "machine", None)
        if mm is not None and hasattr(mm, "states"):
            return mm
        src = getattr(v, "source", None)
        if src is not None and hasattr(src, "machine"):
            return src.machine
    return None


def _collect_strings(env):
    out = set()
    for v in env.values():
        if isinstance(v, str):
            out.add(v)
        elif isinstance(v, dict):
            out.update(k for k in v if isinstance(k, str))
        elif isinstance(v, (list, tuple, set)):
            out.update(x for x in v if isinstance(x, str))
    more = set()
    for s in out:
        more.add(s + ".*")
        if s.endswith(".*"):
            more.add(s[:-2])
    return sorted(out | more | {"*", ""})


def _maxlen(vals):
    m = 2
    for v in vals:
        try:
            if isinstance(v, (str, list, tuple, dict, set)):
                m = max(m, len(v))
        except Exception:
            pass
    return m


def make_wrapper(world, twins, contract, target, orig, is_static, needs_self):
    short = target.split(":")[1]
    sig = inspect.signature(orig)
    self_fields = list(world.self_fields)
    frame_fields = [f for f in self_fields if ("self." + f) not in contract.modifies]

    def before(args, kwargs):
        REC.calls[short] = REC.calls.get(short, 0) + 1
        ba = sig.bind(*args, **kwargs)
        ba.apply_defaults()
        env = dict(ba.arguments)
        selfobj = env.get("self") if needs_self else None
        if needs_self and "self" not in env:
            # first positional parameter named differently
            first = next(iter(ba.arguments))
            selfobj = env.pop(first)
            env["self"] = selfobj
        machine = _find_machine(selfobj, env)
        nodes = _all_nodes(machine) if machine is not None else []
        ctx = Ctx(world, twins, nodes=nodes, strings=_collect_strings(env),
                  maxlen=_maxlen(list(env.values())) + 2)
        if machine is not None:
            env.setdefault("root", machine)
        st = {"env": env, "ctx": ctx, "self": selfobj, "olds": {}, "whens": {}, "frame": {}}
        try:
            for k, r in enumerate(contract.requires):
                if r.startswith("ghost:"):
                    continue          # preconditions over model-only state exist only in verification conditions
                if not ctx.eval(r, env):
                    REC.add(Violation("pre", short, f"requires#{k}", r, call=_describe(env)))
            for lab, e in contract.ensures:
                if not lab.startswith("ghost:"):
                    st["olds"][e] = ctx.eval_olds(e, env)
            for r in contract.raises:
                st["whens"][id(r)] = bool(ctx.eval(r.when, env)) if (r.when and not r.when.startswith("ghost:")) else True
                for e in r.ensures:
                    if not e.startswith("ghost:"):
                        st["olds"][e] = ctx.eval_olds(e[7:] if e.startswith("assume:") else e, env)
            if selfobj is not None:
                for f in frame_fields:
                    if hasattr(selfobj, f):
                        v = getattr(selfobj, f)
                        st["frame"][f] = copy.copy(v) if isinstance(v, (set, list, dict, collections.deque)) else v
        except Exception as e:  # a specification that cannot be evaluated is reported, not hidden
            REC.add(Violation("spec-error", short, "before", repr(e), traceback.format_exc(limit=3), call=_describe(env)))
        return st

    def after(st, result, exc):
        env, ctx = st["env"], st["ctx"]
        try:
            if exc is None:
                env2 = dict(env)
                env2["result"] = result
                ctx.maxlen = max(ctx.maxlen, _maxlen([result]) + 2)
                if isinstance(result, (list, tuple, set)):
                    ctx.strings = sorted(set(ctx.strings) | {x for x in result if isinstance(x, str)})
                for lab, e in contract.ensures:
                    if lab.startswith("ghost:"):
                        continue          # clauses over ghost state exist only in verification conditions
                    if not ctx.eval(e, env2, st["olds"].get(e)):
                        REC.add(Violation("post", short, lab, e, f"witness={ctx.witness!r} result={_short(result)}", call=_describe(env)))
            else:
                names = [c.__name__ for c in type(exc).__mro__]
                ms = [r for r in contract.raises if r.exc in names]
                if not ms:
                    REC.add(Violation("post-exc", short, f"no-unexpected-{type(exc).__name__}", repr(exc), call=_describe(env)))
                else:
                    if not any(st["whens"].get(id(r), True) for r in ms):
                        REC.add(Violation("post-exc", short, f"{type(exc).__name__}:allowed", repr(exc), call=_describe(env)))
                    for r in ms:
                        if st["whens"].get(id(r), True):
                            for k, e in enumerate(r.ensures):
                                if e.startswith("ghost:"):
                                    continue
                                if not ctx.eval(e[7:] if e.startswith("assume:") else e, env, st["olds"].get(e)):
                                    lab = (r.labels[k] if k < len(r.labels) and r.labels[k] else f"ensures#{k}")
                                    REC.add(Violation("post-exc", short, f"{r.exc}:{lab}", e, call=_describe(env)))
            selfobj = st["self"]
            if selfobj is not None:
                for f, v0 in st["frame"].items():
                    v1 = getattr(selfobj, f, None)
                    if v1 != v0:
                        REC.add(Violation("frame" if exc is None else "frame-exc", short, f"unchanged(self.{f})", f"{_short(v0)} -> {_short(v1)}", call=_describe(env)))
        except Exception as e:
            REC.add(Violation("spec-error", short, "after", repr(e), traceback.format_exc(limit=3), call=_describe(env)))

    if inspect.iscoroutinefunction(orig):
        @functools.wraps(orig)
        async def wrapper(*args, **kwargs):
            if not REC.enabled:
                return await orig(*args, **kwargs)
            st = before(args, kwargs)
            try:
                res = await orig(*args, **kwargs)
            except asyncio.CancelledError:
                raise
            except Exception as e:
                after(st, None, e)
                raise
            after(st, res, None)
            return res
    else:
        @functools.wraps(orig)
        def wrapper(*args, **kwargs):
            if not REC.enabled:
                return orig(*args, **kwargs)
            st = before(args, kwargs)
            try:
                res = orig(*args, **kwargs)
            except Exception as e:
                after(st, None, e)
                raise
            after(st, res, None)
            return res
    wrapper.__wrapped_contract__ = contract
    return wrapper


def _short(v, n=200):
    try:
        if isinstance(v, (set, frozenset)):
            v = sorted(getattr(x, "id", repr(x)) for x in v)
        elif isinstance(v, (list, tuple)):
            v = [getattr(x, "id", x) if not isinstance(x, (str, int)) else x for x in v]
        s = repr(v)
    except Exception:
        s = "<unrepr>"
    return s if len(s) <= n else s[:n] + "..."


def _describe(env):
    out = {}
    for k, v in env.items():
        if k in ("root",):
            continue
        if k == "self":
            a = getattr(v, "_active_state_nodes", None)
            out["self"] = {"class": type(v).__name__,
                           "active": sorted(n.id for n in a) if a is not None else None,
                           "status": getattr(v, "status", None)}
        else:
            out[k] = _short(getattr(v, "id", v) if not isinstance(v, (str, int, list, dict, set, tuple)) else v)
    return out


def instrument(world, twins, only_props=None):
    """Install wrappers for every verified-or-trusted contract target."""
    uninstrument()
    for tgt0, c in world.contracts.items():
        if only_props and not (set(c.props) & set(only_props)):
            continue
        if getattr(c, "no_runtime", False):
            continue
        for tgt in [c.target] + c.also:
            module, qual = tgt.split(":")
            mod = importlib.import_module(module)
            parts = qual.split(".")
            owner = mod
            for p in parts[:-1]:
                owner = getattr(owner, p)
            name = parts[-1]
            raw = owner.__dict__.get(name) if inspect.isclass(owner) else getattr(owner, name)
            is_static = isinstance(raw, staticmethod)
            is_cls = isinstance(raw, classmethod)
            fn = raw.__func__ if (is_static or is_cls) else raw
            if getattr(fn, "__wrapped_contract__", None) is not None:
                continue
            needs_self = inspect.isclass(owner) and not is_static
            w = make_wrapper(world, twins, c, tgt, fn, is_static, needs_self)
            new = staticmethod(w) if is_static else (classmethod(w) if is_cls else w)
            setattr(owner, name, new)
            _installed.append((owner, name, raw))


def uninstrument():
    while _installed:
        owner, name, raw = _installed.pop()
        setattr(owner, name, raw)

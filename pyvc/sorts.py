"""Sorts and symbolic values of the pyvc verification-condition generator.

A value (`Val`) is a Python-level record: a sort plus a flat tuple of z3 terms
(its *components*).  Scalars have one component; containers several:

  List[T]   -> (len:Int, arr_c: Array Int c  for each component c of T)
  Set[T]    -> (mem: Array T Bool)                    (T scalar)
  Dict[K,V] -> (klen:Int, karr: Array Int K, has: Array K Bool,
                val_c: Array K c for each component c of V)   (K scalar)
  Opt[T]    -> (isnone: Bool, components of T)
  Tuple     -> python tuple of Vals (never stored in z3 containers)

Python `int` is mathematical Int, `str` is the SMT-LIB String theory.
"""
from __future__ import annotations

import itertools
from dataclasses import dataclass
from typing import Any, List, Sequence, Tuple

import z3

_fresh = itertools.count()


def fresh_name(base: str) -> str:
    return f"{base}!{next(_fresh)}"


class Sort:
    name = "?"

    def comps(self) -> List[Tuple[str, Any]]:
        """[(suffix, z3 sort)] of the flat components."""
        raise NotImplementedError

    def __repr__(self):
        return self.name

    def __eq__(self, other):
        return isinstance(other, Sort) and self.name == other.name

    def __hash__(self):
        return hash(self.name)

    @property
    def scalar(self):
        return len(self.comps()) == 1


class _Scalar(Sort):
    def __init__(self, name, z3sort):
        self.name = name
        self._z = z3sort

    def comps(self):
        return [("", self._z)]

    @property
    def z(self):
        return self._z


INT = _Scalar("int", z3.IntSort())
BOOL = _Scalar("bool", z3.BoolSort())
STR = _Scalar("str", z3.StringSort())


class NoneSort(Sort):
    name = "None"

    def comps(self):
        return []


NONE = NoneSort()

_REF_CACHE = {}


class RefSort(_Scalar):
    """An uninterpreted sort for objects of one class, with a `null`."""

    def __init__(self, cls: str):
        zs = z3.DeclareSort(cls)
        super().__init__(cls, zs)
        self.cls = cls
        self.null = z3.Const(f"null_{cls}", zs)


def Ref(cls: str) -> RefSort:
    if cls not in _REF_CACHE:
        _REF_CACHE[cls] = RefSort(cls)
    return _REF_CACHE[cls]


class MapSort(_Scalar):
    """A total mathematical map (ghost state only): z3 Array."""

    def __init__(self, key: Sort, val: Sort):
        super().__init__(f"Map[{key.name},{val.name}]", z3.ArraySort(key.comps()[0][1], val.comps()[0][1]))
        self.key, self.val = key, val


OPAQUE = Ref("Opaque")  # values we do not model (payloads, contexts, callables)


class OptSort(Sort):
    def __init__(self, inner: Sort):
        self.inner = inner
        self.name = f"Opt[{inner.name}]"

    def comps(self):
        return [("isnone", z3.BoolSort())] + [
            ("v" + s, z) for s, z in self.inner.comps()
        ]


class ListSort(Sort):
    def __init__(self, elem: Sort):
        self.elem = elem
        self.name = f"List[{elem.name}]"

    def comps(self):
        return [("len", z3.IntSort())] + [
            ("arr" + s, z3.ArraySort(z3.IntSort(), z))
            for s, z in self.elem.comps()
        ]


class SetSort(Sort):
    def __init__(self, elem: Sort):
        assert elem.scalar, "set elements must be scalar"
        self.elem = elem
        self.name = f"Set[{elem.name}]"

    def comps(self):
        return [("mem", z3.ArraySort(self.elem.comps()[0][1], z3.BoolSort()))]

    @property
    def z(self):          # a set is one array: usable as the sort of a bound variable / spec-function argument
        return self.comps()[0][1]


class DictSort(Sort):
    def __init__(self, key: Sort, val: Sort):
        assert key.scalar
        self.key = key
        self.val = val
        self.name = f"Dict[{key.name},{val.name}]"

    def comps(self):
        kz = self.key.comps()[0][1]
        return [
            ("klen", z3.IntSort()),
            ("karr", z3.ArraySort(z3.IntSort(), kz)),
            ("has", z3.ArraySort(kz, z3.BoolSort())),
        ] + [("val" + s, z3.ArraySort(kz, z)) for s, z in self.val.comps()]


class TupleSort(Sort):
    def __init__(self, elems: Sequence[Sort]):
        self.elems = list(elems)
        self.name = "Tuple[" + ",".join(e.name for e in elems) + "]"

    def comps(self):
        out = []
        for i, e in enumerate(self.elems):
            out += [(f"t{i}{s}", z) for s, z in e.comps()]
        return out


@dataclass
class Val:
    sort: Sort
    t: Tuple[Any, ...]

    # ---- scalar access
    @property
    def z(self):
        assert len(self.t) == 1, f"not scalar: {self.sort}"
        return self.t[0]

    def __repr__(self):
        return f"<{self.sort}:{self.t}>"


def mk(sort: Sort, *terms) -> Val:
    assert len(terms) == len(sort.comps()), (sort, terms)
    return Val(sort, tuple(terms))


def vint(x) -> Val:
    return mk(INT, z3.IntVal(x) if isinstance(x, int) else x)


def vbool(x) -> Val:
    return mk(BOOL, z3.BoolVal(x) if isinstance(x, bool) else x)


def vstr(x) -> Val:
    return mk(STR, z3.StringVal(x) if isinstance(x, str) else x)


VNONE = Val(NONE, ())


def fresh(sort: Sort, base: str = "v") -> Val:
    nm = fresh_name(base)
    return Val(sort, tuple(z3.Const(f"{nm}{s}", z) for s, z in sort.comps()))


def const(sort: Sort, name: str) -> Val:
    return Val(sort, tuple(z3.Const(f"{name}{s}", z) for s, z in sort.comps()))


# ---------------------------------------------------------------------------
# list helpers
# ---------------------------------------------------------------------------

def list_len(v: Val):
    return v.t[0]


def list_get(v: Val, i) -> Val:
    es = v.sort.elem
    return Val(es, tuple(z3.Select(a, i) for a in v.t[1:]))


def list_empty(elem: Sort) -> Val:
    s = ListSort(elem)
    arrs = tuple(
        z3.K(z3.IntSort(), _default(z)) for _, z in elem.comps()
    )
    return Val(s, (z3.IntVal(0),) + arrs)


def _default(zsort):
    # an arbitrary but fixed default element per sort
    return z3.Const(f"dflt_{zsort}", zsort)


def list_append(v: Val, x: Val) -> Val:
    n = v.t[0]
    arrs = tuple(z3.Store(a, n, xc) for a, xc in zip(v.t[1:], x.t))
    return Val(v.sort, (n + 1,) + arrs)


def list_concat(a: Val, b: Val) -> Val:
    i = z3.Int(fresh_name("ci"))
    n = a.t[0]
    arrs = tuple(
        z3.Lambda([i], z3.If(i < n, z3.Select(x, i), z3.Select(y, i - n)))
        for x, y in zip(a.t[1:], b.t[1:])
    )
    return Val(a.sort, (a.t[0] + b.t[0],) + arrs)


def list_reverse(a: Val) -> Val:
    i = z3.Int(fresh_name("ri"))
    n = a.t[0]
    arrs = tuple(z3.Lambda([i], z3.Select(x, n - 1 - i)) for x in a.t[1:])
    return Val(a.sort, (n,) + arrs)


def list_slice_from(a: Val, k) -> Val:
    """a[k:] for 0 <= k."""
    i = z3.Int(fresh_name("si"))
    n = a.t[0]
    kk = z3.If(k > n, n, k)
    arrs = tuple(z3.Lambda([i], z3.Select(x, i + kk)) for x in a.t[1:])
    return Val(a.sort, (n - kk,) + arrs)


def list_literal(elem: Sort, items: Sequence[Val]) -> Val:
    v = list_empty(elem)
    for it in items:
        v = list_append(v, it)
    return v


# ---------------------------------------------------------------------------
# set helpers
# ---------------------------------------------------------------------------

def set_empty(elem: Sort) -> Val:
    s = SetSort(elem)
    return Val(s, (z3.K(elem.comps()[0][1], z3.BoolVal(False)),))


def set_mem(s: Val, x: Val):
    return z3.Select(s.t[0], x.z)


def set_add(s: Val, x: Val) -> Val:
    return Val(s.sort, (z3.Store(s.t[0], x.z, z3.BoolVal(True)),))


def set_discard(s: Val, x: Val) -> Val:
    return Val(s.sort, (z3.Store(s.t[0], x.z, z3.BoolVal(False)),))


def set_lambda(elem: Sort, fn) -> Val:
    y = z3.Const(fresh_name("sy"), elem.comps()[0][1])
    return Val(SetSort(elem), (z3.Lambda([y], fn(y)),))


# ---------------------------------------------------------------------------
# dict helpers
# ---------------------------------------------------------------------------

def dict_has(d: Val, k: Val):
    return z3.Select(d.t[2], k.z)


def dict_get(d: Val, k: Val) -> Val:
    return Val(d.sort.val, tuple(z3.Select(a, k.z) for a in d.t[3:]))


def dict_keys(d: Val) -> Val:
    return Val(ListSort(d.sort.key), (d.t[0], d.t[1]))


def opt_none(inner: Sort) -> Val:
    s = OptSort(inner)
    return Val(s, (z3.BoolVal(True),) + tuple(_default(z) for _, z in inner.comps()))


def opt_some(v: Val) -> Val:
    return Val(OptSort(v.sort), (z3.BoolVal(False),) + v.t)


def opt_isnone(v: Val):
    return v.t[0]


def opt_val(v: Val) -> Val:
    return Val(v.sort.inner, v.t[1:])


def eq_vals(a: Val, b: Val):
    """Structural equality of two values of the same sort (extensional for
    containers only up to the component arrays - use with care)."""
    assert a.sort == b.sort, (a.sort, b.sort)
    if not a.t:
        return z3.BoolVal(True)
    if isinstance(a.sort, OptSort):
        return z3.And(
            a.t[0] == b.t[0],
            z3.Or(a.t[0], z3.And(*[x == y for x, y in zip(a.t[1:], b.t[1:])])),
        )
    return z3.And(*[x == y for x, y in zip(a.t, b.t)])

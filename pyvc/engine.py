"""The verification driver: contract + extracted function -> obligations."""
from __future__ import annotations

import ast
import os
import time
from dataclasses import dataclass, field
from typing import Any, Dict, List, Optional

import z3

from . import extract as X
from .ev_call import CallMixin
from .ev_expr import ExprMixin
from .ev_stmt import StmtMixin
from .smt import Obligation
from .sorts import (BOOL, INT, NONE, STR, VNONE, DictSort, ListSort, NoneSort,
                    OptSort, Ref, RefSort, SetSort, Val, const, eq_vals, fresh,
                    fresh_name, vbool, vint)
from .state import ExcVal, Outcome, St, Tagged, Unsupported
from .world import Contract, World


@dataclass
class FnReport:
    target: str
    contract: str
    path: str = ""
    lines: str = ""
    sha256: str = ""
    dropped: List[str] = field(default_factory=list)
    obligations: List[Obligation] = field(default_factory=list)
    error: Optional[str] = None       # unsupported construct / extraction failure (=> undecided)
    paths: int = 0
    gen_time_s: float = 0.0
    untouched: List[str] = field(default_factory=list)


class Engine(ExprMixin, CallMixin, StmtMixin):
    def __init__(self, world: World, safety: bool = True, feas_timeout_ms: int = 150):
        self.world = world
        self.safety = safety
        self.feas_timeout_ms = feas_timeout_ms
        self.feas_rlimit = int(os.environ.get("VERIF_FEAS_RLIMIT", "60000"))
        self.spec_mode = False
        self.under_binder = 0
        self.binders: List[Any] = []
        self.raised: List[Outcome] = []
        self.expected_sort = None
        self.written = set()
        self.obligations: List[Obligation] = []
        self.contract: Optional[Contract] = None
        self.entry_measure = None
        self.loop_ord: Dict[int, int] = {}
        self.stmt_count = 0
        self.allow_nonterminating = False
        self.known_classes = set()
        self.self_consts: Dict[str, Val] = dict(getattr(world, "self_consts", {}))
        self._fn_cache: Dict[str, Any] = {}
        self.extra_axioms: List[Any] = []
        self.self_val = Val(world.self_sort, (z3.Const("self", world.self_sort.z),))
        self._axioms: Optional[List[Any]] = None
        self.cur_fn = ""
        self._oid = 0
        self._feas_solver = None
        self.syntactic = 0
        self.touched = set()

    # ---------------------------------------------------------------- axioms
    def axioms(self) -> List[Any]:
        if self._axioms is None:
            out = []
            st = St({"self": self.self_val}, {}, [])
            for ax in self.world.axioms:
                f = self.spec_bool(ax.text, st)
                ax.formula = f
                out.append(f)
            self._axioms = out
        return self._axioms + self.extra_axioms

    # ---------------------------------------------------------------- feasibility
    def feasible(self, st: St) -> bool:
        """Path pruning only: a path is dropped when its condition is refuted.  The refutation uses the cone of
        influence of the most recently added conjuncts (dropping hypotheses is sound for `unsat`; an
        inconsistency that does not involve the new conjuncts was already there at the previous check)."""
        from .smt import symbols_cached
        pcs = [p.expr if isinstance(p, Tagged) else p for p in st.pc]
        items = [(p, symbols_cached(p)) for p in pcs] + [(a, symbols_cached(a)) for a in self.axioms()]
        hub = {"root", "null_Node", "self"}
        want = set()
        for p in pcs[-4:]:
            want |= symbols_cached(p)
        want -= hub
        keep = [False] * len(items)
        for k in range(max(0, len(pcs) - 4), len(pcs)):
            keep[k] = True
        changed = True
        while changed:
            changed = False
            for k, (p, sy) in enumerate(items):
                if not keep[k] and (sy - hub) & want:
                    keep[k] = True
                    new = (sy - hub) - want
                    if new:
                        want |= new
                        changed = True
        s = z3.Solver()
        # a deterministic resource bound (not wall time): which paths are pruned must not depend on machine load
        s.set("rlimit", self.feas_rlimit)
        s.set("timeout", 2000)
        s.set("smt.mbqi", False)
        s.set("smt.auto_config", False)
        for k, (p, _) in enumerate(items):
            if keep[k]:
                s.add(p)
        return s.check() != z3.unsat

    # ---------------------------------------------------------------- obligations
    def oblige(self, st: St, kind: str, label: str, goal, node=None, expect_fail=False):
        if self.spec_mode and kind == "safe":
            return
        self.touched.add(f"{kind}:{label.split('@')[0]}")
        goal = z3.simplify(goal) if z3.is_expr(goal) else z3.BoolVal(bool(goal))
        if z3.is_true(goal):
            return
        for vars_, guard in reversed(self.binders):
            goal = z3.ForAll(vars_, z3.Implies(guard, goal))
        goals = [goal]
        if z3.is_and(goal) and not self.binders:
            goals = list(goal.children())
        for k, g in enumerate(goals):
            if not expect_fail and not self.binders and self._known_syntactically(st, g):
                self.syntactic += 1      # the goal IS one of the hypotheses (up to bound-variable names)
                continue
            self._oid += 1
            lab = label if len(goals) == 1 else f"{label}.{k}"
            self.obligations.append(Obligation(
                oid=f"{self.cur_fn}/{kind}:{lab}/{self._oid}",
                coarse=f"{self.cur_fn}/{kind}:{lab.split('@')[0]}",
                kind=kind, fn=self.cur_fn, label=lab, pc=self._scoped_pc(st, lab), goal=g,
                line=getattr(node, "lineno", 0) or 0, expect_fail=expect_fail))

    def _norm(self, e, memo=None) -> str:
        """alpha-normal form of a z3 term (bound variables by de Bruijn index, patterns ignored).
        `memo` maps ast id -> (expr, text) and keeps the expr alive: z3 re-uses ids of freed asts."""
        if memo is None:
            memo = {}
        k = e.get_id()
        c = memo.get(k)
        if c is not None:
            return c[1]
        if z3.is_quantifier(e):
            r = ("A" if e.is_forall() else ("E" if e.is_exists() else "L")) + "[" + ",".join(str(e.var_sort(i)) for i in range(e.num_vars())) + "]" + self._norm(e.body(), memo)
        elif z3.is_var(e):
            r = f"#{z3.get_var_index(e)}"
        elif z3.is_app(e):
            d = e.decl()
            if e.num_args() == 0:
                r = e.sexpr()
            else:
                r = "(" + d.name() + ":" + str(d.kind()) + " " + " ".join(self._norm(c_, memo) for c_ in e.children()) + ")"
        else:
            r = e.sexpr()
        memo[k] = (e, r)
        return r

    def _flatten(self, e, out):
        if z3.is_and(e):
            for c_ in e.children():
                self._flatten(c_, out)
        else:
            out.append(e)

    def _known_syntactically(self, st, goal) -> bool:
        # memo: ast id -> (ast, text); entries keep their ast alive, so an id cannot be re-used while it is a key
        memo = self.__dict__.setdefault("_norm_memo", {})
        if len(memo) > 400000:
            memo.clear()
        g = self._norm(goal, memo)
        for p in st.pc:
            p = p.expr if isinstance(p, Tagged) else p
            parts = []
            self._flatten(p, parts)
            for q in parts:
                if self._norm(q, memo) == g:
                    return True
        return False

    def _scoped_pc(self, st, label):
        out = []
        for p in st.pc:
            if isinstance(p, Tagged):
                if any(label.startswith(t) for t in p.tags):
                    out.append(p.expr)
            else:
                out.append(p)
        return out

    def contract_result_sort(self):
        return self.contract.result if self.contract else None

    # ---------------------------------------------------------------- inlined properties
    def inline_property(self, node, st, base, ref):
        module, qual = ref
        ex = X.extract(f"{module}:{qual}")
        fn = ex.node
        s2 = st.copy()
        saved = s2.env
        s2.env = {fn.args.args[0].arg: base}
        res = []
        for o in self.exec_block(fn.body, s2):
            o.st.env = saved
            if o.kind == "return":
                res.append((o.st, o.val))
            elif o.kind == "raise":
                self.raised.append(o)
            else:
                raise Unsupported(node, "inlined property without return")
        return res

    # ---------------------------------------------------------------- initial state
    def initial_state(self, c: Contract, fnnode) -> St:
        w = self.world
        st = St()
        st.env["self"] = self.self_val
        for name, so in c.params.items():
            st.env[name] = const(so, f"arg_{name}")
        for name, so in c.ghost_params.items():
            st.env[name] = const(so, f"ghost_{name}")
        for name, so in c.ghosts.items():
            st.env[name] = const(so, f"ghostvar_{name}")
        for name, f in w.self_fields.items():
            st.heap["self." + name] = const(f.sort, f"self_{name}0")
        for cls, sch in w.classes.items():
            for fname, f in sch.fields.items():
                if f.mutable:
                    arrs = tuple(z3.Const(f"heap_{cls}_{fname}{s}0", z3.ArraySort(Ref(cls).z, z))
                                 for s, z in f.sort.comps())
                    st.heap[(cls, fname)] = Val(f.sort, arrs)
        # containers among params / self fields are well-formed
        for v in list(st.env.values()) + list(st.heap.values()):
            self.assume_wf(st, v)
        return st

    def assume_wf(self, st, v):
        if isinstance(v, Val):
            if isinstance(v.sort, ListSort):
                st.assume(v.t[0] >= 0)
            elif isinstance(v.sort, DictSort) and len(v.t) and z3.is_const(v.t[0]):
                self.assume_dict_wf(st, v)

    # ---------------------------------------------------------------- main entry
    def verify(self, c: Contract, target: Optional[str] = None) -> FnReport:
        target = target or c.target
        rep = FnReport(target=target, contract=c.target)
        t0 = time.time()
        self.contract = c
        self.cur_fn = target.split(":")[1]
        self.cur_module = target.split(":")[0]
        self.obligations = []
        self.touched = set()
        self.used_contracts = set()
        self.ghost_hit = set()
        self.written = set()
        self.raised = []
        self.binders = []
        self.under_binder = 0
        self.spec_mode = False
        try:
            ex = X.extract(target)
            rep.path, rep.lines, rep.sha256, rep.dropped = ex.path, f"{ex.lineno}-{ex.end_lineno}", ex.sha256, ex.dropped
            fn = ex.node
            self.loop_ord = {}
            k = 0
            for sub in ast.walk(fn):
                pass
            for sub in self._preorder(fn):
                if isinstance(sub, (ast.For, ast.AsyncFor, ast.While)):
                    self.loop_ord[id(sub)] = k
                    k += 1
            # occurrence numbers of textually identical simple statements (for ghost keys "text#k")
            self.stmt_occ = {}
            seen_txt = {}
            for sub in self._preorder(fn):
                if isinstance(sub, ast.stmt) and not isinstance(sub, (ast.If, ast.For, ast.While, ast.Try, ast.FunctionDef, ast.AsyncFunctionDef)):
                    t = ast.unparse(sub).strip()
                    seen_txt[t] = seen_txt.get(t, 0) + 1
                    self.stmt_occ[id(sub)] = seen_txt[t]
            self.cur_loops = c.loops_for(target)
            for o in self.cur_loops:
                if o >= k:
                    raise Unsupported(fn, f"contract-out-of-date: loop ordinal {o} does not exist (function has {k} loops)")
            # parameters
            argnames = [a.arg for a in fn.args.args] + [a.arg for a in fn.args.kwonlyargs]
            is_static = "staticmethod" in ex.decorators
            if not is_static and ex.class_name and argnames and argnames[0] in ("self", "cls"):
                argnames = argnames[1:]
            missing = [a for a in argnames if a not in c.params]
            extra = [a for a in c.params if a not in argnames]
            if missing or extra:
                raise Unsupported(fn, f"contract-out-of-date: parameters differ (missing {missing}, unknown {extra})")
            st = self.initial_state(c, fn)
            for extra in (fn.args.vararg, fn.args.kwarg):
                if extra is not None:
                    from .sorts import OPAQUE
                    st.env[extra.arg] = const(OPAQUE, f"arg_{extra.arg}")
            for r in c.requires:
                st.assume(self.spec_bool(r[6:] if r.startswith("ghost:") else r, st))
            for gname, gtext in c.ghost_init.items():
                st.assume(self.equal(st.env[gname], self.coerce(self.spec_eval(gtext, st), c.ghosts[gname], fn), fn))
            for gtext in getattr(c, "ghost_assume", []):
                st.assume(self.spec_bool(gtext, st))
            c_expose = list(getattr(c, "expose", [])) + list(c.ghosts)
            entry_env = dict(st.env)
            pre = St(dict(st.env), dict(st.heap), list(st.pc), None, dict(st.ghost))
            st.pre = pre
            if c.decreases:
                self.entry_measure = self.spec_eval(c.decreases, st).z
                self.oblige(st, "decreases", "entry-measure-nonneg", self.entry_measure >= 0, fn)
            # vacuity: the precondition must be satisfiable
            self.oblige(st, "cover", "requires-satisfiable", z3.BoolVal(False), fn, expect_fail=True)
            outs = self.exec_block(fn.body, st) + self.raised
            rep.paths = len(outs)
            normal = 0
            for o in outs:
                if o.kind in ("fall", "return"):
                    normal += 1
                    self._check_normal(c, o, entry_env, pre, fn)
                elif o.kind == "raise":
                    self._check_raise(c, o, entry_env, pre, fn)
                else:
                    raise Unsupported(fn, f"{o.kind} escaping function")
        except X.ExtractError as e:
            rep.error = f"extract: {e}"
        except Unsupported as e:
            rep.error = f"unsupported: {e}"
        # vacuity guard: every ghost annotation is attached to a statement that exists in this body (and was reached)
        if not rep.error:
            dead = [f"{w_}:{k_}" for w_, tbl in (("before", c.ghost_before), ("after", c.ghost_after)) for k_ in tbl
                    if (w_, k_) not in self.ghost_hit]
            if dead:
                rep.error = "ghost annotation matches no reachable statement: " + "; ".join(dead)[:300]
        rep.used_contracts = sorted(self.used_contracts)      # callee contracts this proof relied on (modular verification)
        rep.obligations = self.obligations
        # vacuity guard: every postcondition of the contract was generated on at least one path
        rep.untouched = [lab for lab, _ in c.ensures if f"post:{lab}" not in self.touched and not lab.startswith("rt:")] if not rep.error else []
        rep.gen_time_s = time.time() - t0
        return rep

    def _preorder(self, node):
        yield node
        for ch in ast.iter_child_nodes(node):
            yield from self._preorder(ch)

    def _frame(self, c, o: Outcome, pre: St, fn, kind="frame"):
        for loc, v0 in pre.heap.items():
            if loc in c.modifies:
                continue
            v1 = o.st.heap.get(loc)
            if v1 is None:
                continue
            if all(a.eq(b) for a, b in zip(v0.t, v1.t)):
                continue
            name = loc if isinstance(loc, str) else ".".join(loc)
            if not isinstance(loc, str):
                # a mutable field of a class: one array (object -> component) per component
                # semantic equality per object (for an Optional field the payload of a None is irrelevant)
                ox = z3.Const(fresh_name("fo"), Ref(loc[0]).z)
                g_ = eq_vals(Val(v1.sort, tuple(z3.Select(a, ox) for a in v1.t)), Val(v0.sort, tuple(z3.Select(a, ox) for a in v0.t)))
                self.oblige(o.st, kind, f"unchanged({name})", z3.ForAll([ox], g_), fn)
                continue
            self.oblige(o.st, kind, f"unchanged({name})", self.equal(v1, v0, fn) if not isinstance(v0.sort, (SetSort, DictSort)) else eq_vals(v1, v0), fn)

    def _check_normal(self, c, o: Outcome, entry_env, pre, fn):
        res = o.val if o.kind == "return" else VNONE
        if c.result is not None:
            if isinstance(res, Val) and res.sort != c.result:
                from .sorts import OptSort, opt_val
                if isinstance(res.sort, OptSort) and res.sort.inner == c.result:
                    # an Optional value returned where the contract promises a value: it must not be None here
                    self.oblige(o.st, "post", "result-is-not-None", z3.Not(res.t[0]), fn)
                    res = opt_val(res)
                else:
                    res = self.coerce(res, c.result, fn)
        env = dict(entry_env)
        env["result"] = res
        # expose final values of locals declared as ghost-visible
        for name in list(getattr(c, "expose", [])) + list(c.ghosts):
            if name in o.st.env:
                env["final_" + name] = o.st.env[name]
        post_st = St(env, o.st.heap, o.st.pc, pre, o.st.ghost)
        for lab, e in c.ensures:
            if lab.startswith("rt:"):
                continue        # stated over an executable spec twin: evaluated around the real call at run time only
            if lab.startswith("assume:"):
                self.touched.add(f"post:{lab}")
                continue        # an ASSUMED clause: callers rely on it, this body is not checked against it (listed in the evidence; run-time checked)
            self.oblige(o.st, "post", lab, self.spec_bool(e, post_st), fn)
        self._frame(c, o, pre, fn)

    def _check_raise(self, c, o: Outcome, entry_env, pre, fn):
        exc: ExcVal = o.val
        matches = [r for r in c.raises if self.world.is_subexc(exc.cls, r.exc)]
        if not matches:
            self.oblige(o.st, "post-exc", f"no-unexpected-{exc.cls}", z3.BoolVal(False), fn)
            return
        env = dict(entry_env)
        for name in list(getattr(c, "expose", [])) + list(c.ghosts):
            if name in o.st.env:
                env["final_" + name] = o.st.env[name]
        post_st = St(env, o.st.heap, o.st.pc, pre, o.st.ghost)
        pre_eval = St(dict(entry_env), pre.heap, [], None, pre.ghost)
        whens = [self.spec_bool(r.when[6:] if r.when.startswith('ghost:') else r.when, pre_eval) if r.when else z3.BoolVal(True) for r in matches]
        self.oblige(o.st, "post-exc", f"{exc.cls}:allowed", z3.Or(*whens), fn)
        for r, wv in zip(matches, whens):
            for k, e in enumerate(r.ensures):
                if e.startswith("assume:"):
                    continue
                e = e[6:] if e.startswith("ghost:") else e
                lab = (r.labels[k] if k < len(r.labels) and r.labels[k] else f"ensures#{k}")
                self.oblige(o.st, "post-exc", f"{exc.cls}:{lab}", z3.Implies(wv, self.spec_bool(e, post_st)), fn)
        self._frame(c, o, pre, fn, kind="frame-exc")

"""Symbolic state, outcomes and python-level (non-z3) values."""
from __future__ import annotations

import ast
from dataclasses import dataclass, field
from typing import Any, Dict, List, Optional, Tuple

from .sorts import Val


class Unsupported(Exception):
    def __init__(self, node, msg):
        self.node = node
        self.msg = msg
        line = getattr(node, "lineno", "?")
        super().__init__(f"line {line}: {msg}")


class St:
    __slots__ = ("env", "heap", "pc", "pre", "ghost", "exc")

    def __init__(self, env=None, heap=None, pc=None, pre=None, ghost=None, exc=None):
        self.env: Dict[str, Any] = env if env is not None else {}
        self.heap: Dict[Any, Val] = heap if heap is not None else {}
        self.pc: List[Any] = pc if pc is not None else []
        self.pre: Optional["St"] = pre
        self.ghost: Dict[str, Any] = ghost if ghost is not None else {}
        self.exc = exc  # currently handled exception (for bare `raise`)

    def copy(self) -> "St":
        return St(dict(self.env), dict(self.heap), list(self.pc), self.pre,
                  dict(self.ghost), self.exc)

    def assume(self, cond) -> "St":
        self.pc.append(cond)
        return self


class Tagged:
    """A path-condition entry that is only handed to obligations whose label
    starts with one of `tags` (scoped hint lemmas)."""
    __slots__ = ("expr", "tags")

    def __init__(self, expr, tags):
        self.expr, self.tags = expr, tuple(tags)


@dataclass
class ExcVal:
    cls: str
    payload: Any = None

    def __repr__(self):
        return f"Exc({self.cls})"


@dataclass
class Outcome:
    kind: str            # fall | return | raise | break | continue
    st: St
    val: Any = None      # Val for return, ExcVal for raise


# python-level values living in env ------------------------------------------------

@dataclass
class PyTuple:
    items: Tuple[Any, ...]


@dataclass
class Closure:
    node: Any                # ast.FunctionDef | ast.Lambda
    env: Dict[str, Any]      # captured (by reference) environment


@dataclass
class BoundMethod:
    recv: Any                # Val or special
    name: str


@dataclass
class Builtin:
    name: str


@dataclass
class ModuleRef:
    name: str


@dataclass
class ClassRef:
    name: str


@dataclass
class SpecFnRef:
    name: str


@dataclass
class GenExp:
    """An unevaluated generator expression / comprehension source."""
    node: Any
    st: St


@dataclass
class DictItems:
    d: Val


@dataclass
class DictValues:
    d: Val

"""Concrete (run-time) evaluation of the SAME contract texts that the symbolic
engine proves: used by the bounded layer (contracts as run-time pre/post
checks around the real functions) and by counterexample replay.

A contract expression is python syntax over the real objects; the spec
vocabulary is provided by a namespace:

  forall[S, ...](lambda x, ...: body [, patterns])   finite universes per sort
  exists[S, ...](lambda ...)
  implies(a, b) / iff / ite     rewritten to lazy python before evaluation
  old(e)                         evaluated against the pre-state snapshot
  macros / axiomatised spec functions: executable twins from the World

Integer quantifiers range over [-2, M+2] where M bounds every length in sight
(all contract quantifiers are guarded by index ranges, so this is exact).
"""
from __future__ import annotations

import ast
import copy
from typing import Any, Callable, Dict, List, Optional


class ContractViolation(AssertionError):
    def __init__(self, kind, fn, label, text, detail=""):
        self.kind, self.fn, self.label, self.text, self.detail = kind, fn, label, text, detail
        super().__init__(f"{kind} {fn} [{label}]: {text} {detail}")


class _Lazy(ast.NodeTransformer):
    """implies/iff/ite -> lazy python; old(e) -> __old[k]."""

    def __init__(self):
        self.olds: List[str] = []

    def visit_Call(self, node):
        self.generic_visit(node)
        if isinstance(node.func, ast.Name):
            n = node.func.id
            a = node.args
            if n == "implies" and len(a) == 2:
                return ast.BoolOp(op=ast.Or(), values=[ast.UnaryOp(op=ast.Not(), operand=a[0]), a[1]])
            if n == "ite" and len(a) == 3:
                return ast.IfExp(test=a[0], body=a[1], orelse=a[2])
            if n == "iff" and len(a) == 2:
                return ast.Compare(left=ast.Call(func=ast.Name(id="bool", ctx=ast.Load()), args=[a[0]], keywords=[]),
                                   ops=[ast.Eq()],
                                   comparators=[ast.Call(func=ast.Name(id="bool", ctx=ast.Load()), args=[a[1]], keywords=[])])
            if n == "old" and len(a) == 1:
                txt = ast.unparse(a[0])
                if txt not in self.olds:
                    self.olds.append(txt)
                return ast.Subscript(value=ast.Name(id="__old", ctx=ast.Load()),
                                     slice=ast.Constant(value=self.olds.index(txt)), ctx=ast.Load())
            # quantifier: drop the optional pattern lambda
            if isinstance(node.func, ast.Subscript):
                pass
        if isinstance(node.func, ast.Subscript) and isinstance(node.func.value, ast.Name) \
                and node.func.value.id in ("forall", "exists") and len(node.args) > 1:
            node.args = node.args[:1]
        return node


_compiled: Dict[str, Any] = {}


def compile_spec(text: str):
    if text not in _compiled:
        tree = ast.parse(text.strip(), mode="eval")
        lz = _Lazy()
        tree = lz.visit(tree)
        ast.fix_missing_locations(tree)
        code = compile(tree, f"<spec:{text[:40]}>", "eval")
        old_codes = [compile(ast.fix_missing_locations(_Lazy().visit(ast.parse(t, mode="eval"))), "<old>", "eval") for t in lz.olds]
        _compiled[text] = (code, old_codes)
    return _compiled[text]


class _Quant:
    def __init__(self, ctx, is_forall):
        self.ctx, self.is_forall = ctx, is_forall

    def __getitem__(self, sorts):
        if not isinstance(sorts, tuple):
            sorts = (sorts,)
        ctx, is_forall = self.ctx, self.is_forall

        def run(fn, *_):
            import itertools
            doms = [ctx.universe(s) for s in sorts]
            for combo in itertools.product(*doms):
                try:
                    v = bool(fn(*combo))
                except (AttributeError, IndexError, KeyError, TypeError):
                    # a guard that does not protect its body is a specification error
                    raise
                if is_forall and not v:
                    ctx.witness = combo
                    return False
                if (not is_forall) and v:
                    return True
            return is_forall
        return run


class Ctx:
    """Evaluation context: universes + namespace."""

    def __init__(self, world, twins: Dict[str, Callable], nodes=(), strings=(), maxlen=6):
        self.world = world
        self.twins = twins
        self.nodes = list(nodes)
        self.strings = list(strings)
        self.maxlen = maxlen
        self.witness = None
        self.extra_universe: Dict[str, list] = {}

    def universe(self, sort):
        name = sort if isinstance(sort, str) else getattr(sort, "__name__", str(sort))
        if sort is int or name == "int":
            return range(-2, self.maxlen + 3)
        if sort is str or name == "str":
            return self.strings
        if name in self.extra_universe:
            return self.extra_universe[name]
        if name == "Node":
            return self.nodes + [None]
        raise KeyError(f"no universe for sort {name}")

    def namespace(self, env: Dict[str, Any], olds=None):
        w = self.world
        ns: Dict[str, Any] = {
            "forall": _Quant(self, True), "exists": _Quant(self, False),
            "int": int, "str": str, "bool": bool, "len": len,
            "Node": "Node", "Trans": "Trans", "Guard": "Guard", "Event": "Event", "Opaque": "Opaque",
            **{cn: cn for cn in w.classes}, **{cn + "Set": cn + "Set" for cn in w.classes},
            "keys": lambda d: list(d),
            "keyidx": lambda d, k: (list(d).index(k) if k in d else -1),
            "store": lambda m, k, v: {**m, k: v},
            "set_eq": lambda a, b: set(a) == set(b),
            "subset": lambda a, b: set(a) <= set(b),
            "seq_eq": lambda a, b: list(a) == list(b),
            "same": lambda a, b: a == b,
            "distinct": lambda *a: len(set(map(id, a))) == len(a),
            "__old": olds or [],
        }
        for name, sf in w.specfns.items():
            if sf.macro is not None:
                ns[name] = self._macro(name, sf.macro)
            elif name in self.twins:
                ns[name] = self.twins[name]
        for name, fn in self.twins.items():
            ns.setdefault(name, fn)
        ns.update(env)
        return ns

    def _macro(self, name, macro):
        formals, text = macro
        code, old_codes = compile_spec(text)
        ctx = self

        def f(*args):
            env = {k: v for k, v in ctx._cur_env.items() if k in ("self", "root")}
            env.update(zip(formals, args))
            return eval(code, ctx.namespace(env))
        return f

    _cur_env: Dict[str, Any] = {}

    def eval(self, text: str, env: Dict[str, Any], olds=None):
        code, _ = compile_spec(text)
        self._cur_env = env
        return eval(code, self.namespace(env, olds))

    def eval_olds(self, text: str, env: Dict[str, Any]):
        """Evaluate the old(...) sub-expressions of `text` now (pre-state)."""
        _, old_codes = compile_spec(text)
        self._cur_env = env
        ns = self.namespace(env)
        out = []
        for c in old_codes:
            v = eval(c, ns)
            out.append(copy.copy(v) if isinstance(v, (set, list, dict)) else v)
        return out

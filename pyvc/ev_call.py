"""Calls, comprehensions, spec functions, contract application."""
from __future__ import annotations

import ast
from typing import Any, List, Tuple

import z3

from .sorts import (BOOL, INT, NONE, OPAQUE, STR, VNONE, DictSort, ListSort,
                    NoneSort, OptSort, Ref, RefSort, SetSort, Sort, Val,
                    dict_get, dict_has, dict_keys, eq_vals, fresh, fresh_name,
                    list_append, list_concat, list_empty, list_get, list_len,
                    list_reverse, mk, opt_isnone, opt_none, opt_some, opt_val,
                    set_add, set_discard, set_empty, set_lambda, set_mem,
                    vbool, vint, vstr)
from .state import (BoundMethod, Builtin, ClassRef, Closure, DictItems,
                    DictValues, ExcVal, GenExp, ModuleRef, Outcome, PyTuple,
                    SpecFnRef, St, Unsupported)


class IterSrc:
    """A normalised iteration source: an indexable sequence of python-level items."""

    def __init__(self, n, item_at, kind, elem_sorts, member=None):
        self.n = n                    # z3 Int length
        self.item_at = item_at        # i -> Val | PyTuple
        self.kind = kind              # 'list' | 'set'
        self.member = member          # for sets: x(z3) -> Bool


class CallMixin:
    # ---------------------------------------------------------------- iteration
    def iter_source(self, node, st, v) -> IterSrc:
        if isinstance(v, Val) and isinstance(v.sort, OptSort) and isinstance(v.sort.inner, (ListSort, SetSort, DictSort)):
            # iterating an Optional[container]: a TypeError unless it is not None here
            self.oblige(st, "safe", f"not-none@{getattr(node, 'lineno', 0)}:iter", z3.Not(v.t[0]), node)
            v = self.named(st, opt_val(v))        # named: its components are ite-terms, which patterns cannot contain
        if isinstance(v, Val) and isinstance(v.sort, ListSort):
            return IterSrc(v.t[0], lambda i: list_get(v, i), "list", None)
        if isinstance(v, Val) and isinstance(v.sort, DictSort):
            keys = dict_keys(v)
            return IterSrc(keys.t[0], lambda i: list_get(keys, i), "list", None)
        if isinstance(v, DictValues):
            keys = dict_keys(v.d)
            return IterSrc(keys.t[0], lambda i: dict_get(v.d, list_get(keys, i)), "list", None)
        if isinstance(v, DictItems):
            keys = dict_keys(v.d)
            return IterSrc(keys.t[0], lambda i: PyTuple((list_get(keys, i), dict_get(v.d, list_get(keys, i)))), "list", None)
        if isinstance(v, Val) and isinstance(v.sort, SetSort):
            perm = self.set_enumeration(st, v)
            src = IterSrc(perm.t[0], lambda i: list_get(perm, i), "set", None,
                          member=lambda x: z3.Select(v.t[0], x))
            src.perm = perm
            return src
        if isinstance(v, PyTuple):
            items = v.items
            es = items[0].sort
            from .sorts import list_literal
            lv = list_literal(es, list(items))
            return IterSrc(lv.t[0], lambda i: list_get(lv, i), "list", None)
        raise Unsupported(node, f"cannot iterate over {v!r}")

    def set_enumeration(self, st, s: Val) -> Val:
        """A fresh list enumerating the (finite) set in an ARBITRARY order:
        distinct, and exactly the members.  This is the model of python set
        iteration order (C16: nothing may depend on it)."""
        orig = s
        s = self.named(st, s)
        es = s.sort.elem
        perm = fresh(ListSort(es), "perm")
        n, arr = perm.t
        # non-emptiness in the form the set was BUILT (e.g. a conjunction for an intersection), so that the
        # skolem witness of `if not S` / `if S` meets it without going through the name
        x0 = z3.Const(fresh_name("ne"), es.z)
        st.assume(z3.ForAll([x0], z3.Implies(z3.Select(orig.t[0], x0), n > 0)))
        idx = z3.Function(fresh_name("idx"), es.z, z3.IntSort())
        i = z3.Int(fresh_name("pi"))
        x = z3.Const(fresh_name("px"), es.z)
        st.assume(n >= 0)
        st.assume(z3.ForAll([i], z3.Implies(z3.And(0 <= i, i < n),
                  z3.And(z3.Select(s.t[0], z3.Select(arr, i)), idx(z3.Select(arr, i)) == i)),
                  patterns=[z3.Select(arr, i)]))
        st.assume(z3.ForAll([x], z3.Implies(z3.Select(s.t[0], x),
                  z3.And(0 <= idx(x), idx(x) < n, z3.Select(arr, idx(x)) == x)),
                  patterns=[z3.Select(s.t[0], x)]))
        src_list = getattr(orig, "from_list", None)
        if src_list is not None:
            # set(xs): every xs[k] is enumerated - stated over the list term, which is what proofs have in hand
            k = z3.Int(fresh_name("pk"))
            xk = z3.Select(src_list.t[1], k)
            st.assume(z3.ForAll([k], z3.Implies(z3.And(0 <= k, k < src_list.t[0]),
                      z3.And(0 <= idx(xk), idx(xk) < n, z3.Select(arr, idx(xk)) == xk)), patterns=[xk]))
        if not orig.t[0].eq(s.t[0]):
            # the same fact stated over the set AS BUILT (e.g. `a[x] and b[x]` for an intersection): membership facts
            # derived before the set got its name then reach the enumeration without array extensionality
            st.assume(z3.ForAll([x], z3.Implies(z3.Select(orig.t[0], x),
                      z3.And(0 <= idx(x), idx(x) < n, z3.Select(arr, idx(x)) == x))))
            i2 = z3.Int(fresh_name("pj"))
            st.assume(z3.ForAll([i2], z3.Implies(z3.And(0 <= i2, i2 < n), z3.Select(orig.t[0], z3.Select(arr, i2))),
                      patterns=[z3.Select(arr, i2)]))
        return perm

    # ---------------------------------------------------------------- comprehensions
    def _comp_parts(self, node, st):
        """Single-generator comprehension -> (src, bind(item)->env-updates, cond(item)->z3, st)"""
        if len(node.generators) != 1:
            raise Unsupported(node, "comprehension with several generators")
        g = node.generators[0]
        itv = self.ev1(g.iter, st)
        src = self.iter_source(node, st, itv)

        def bind(item, s):
            s2 = s.copy()
            self.assign_target(g.target, item, s2)
            return s2

        def cond(item, s):
            s2 = bind(item, s)
            cs = []
            for c in g.ifs:
                cv = self.ev_pure(c, s2)
                cs.append(self.truthy(cv))
                s2.assume(cs[-1])
            return (z3.And(*cs) if cs else z3.BoolVal(True)), s2
        return src, bind, cond

    def ev_pure(self, node, st):
        """Evaluate under a binder: no forks, contract calls only if pure."""
        old = self.under_binder
        self.under_binder += 1
        try:
            r = self.ev(node, st)
        finally:
            self.under_binder = old
        if len(r) != 1:
            raise Unsupported(node, "forking expression under a binder")
        return r[0][1]

    def ev_GeneratorExp(self, node, st):
        return [(st, GenExp(node, st))]

    def ev_SetComp(self, node, st):
        src, bind, cond = self._comp_parts(node, st)
        i = z3.Int(fresh_name("ci"))
        self.push_binder([i], z3.And(0 <= i, i < src.n))
        try:
            item = src.item_at(i)
            c, s2 = cond(item, st)
            self.binders[-1] = (self.binders[-1][0], z3.And(self.binders[-1][1], c))   # the filter holds wherever the element expression is evaluated
            e = self.ev_pure(node.elt, s2)
        finally:
            self.pop_binder()
        if not (isinstance(e, Val) and e.sort.scalar):
            raise Unsupported(node, "set comprehension element must be scalar")
        if src.kind == "set" and isinstance(item, Val) and e.z.eq(item.z):
            # {s for s in S if P(s)}  ->  lambda y. S[y] /\ P(y)
            y = z3.Const(fresh_name("sy"), e.sort.z)
            body = z3.substitute(c, (item.z, y))
            return [(st, Val(SetSort(e.sort), (z3.Lambda([y], z3.And(src.member(y), body)),)))]
        y = z3.Const(fresh_name("sy"), e.sort.z)
        body = z3.Exists([i], z3.And(0 <= i, i < src.n, c, e.z == y))
        return [(st, Val(SetSort(e.sort), (z3.Lambda([y], body),)))]

    def ev_ListComp(self, node, st):
        src, bind, cond = self._comp_parts(node, st)
        g = node.generators[0]
        i = z3.Int(fresh_name("ci"))
        self.push_binder([i], z3.And(0 <= i, i < src.n))
        try:
            item = src.item_at(i)
            c, s2 = cond(item, st)
            self.binders[-1] = (self.binders[-1][0], z3.And(self.binders[-1][1], c))   # the filter holds wherever the element expression is evaluated
            e = self.ev_pure(node.elt, s2)
        finally:
            self.pop_binder()
        if not isinstance(e, Val):
            raise Unsupported(node, "list comprehension element")
        res = fresh(ListSort(e.sort), "lc")
        n = res.t[0]
        st.assume(n >= 0)
        if not g.ifs:
            st.assume(n == src.n)
            st.assume(z3.ForAll([i], z3.Implies(z3.And(0 <= i, i < src.n),
                      eq_vals(list_get(res, i), e))))
            return [(st, res)]
        # filter-map: strictly increasing position map pos: [0,n) -> [0,src.n)
        pos = z3.Function(fresh_name("pos"), z3.IntSort(), z3.IntSort())
        inv = z3.Function(fresh_name("inv"), z3.IntSort(), z3.IntSort())
        j = z3.Int(fresh_name("cj"))
        k = z3.Int(fresh_name("ck"))
        c_at = lambda t: z3.substitute(c, (i, t))
        e_at = lambda t: Val(e.sort, tuple(z3.substitute(x, (i, t)) for x in e.t))
        st.assume(n <= src.n)
        res_j = list_get(res, j)
        pats_j = [pos(j)] + [t for t in res_j.t[:1] if z3.is_app(t)]
        st.assume(z3.ForAll([j], z3.Implies(z3.And(0 <= j, j < n),
                  z3.And(0 <= pos(j), pos(j) < src.n, c_at(pos(j)),
                         eq_vals(res_j, e_at(pos(j))), inv(pos(j)) == j)),
                  patterns=pats_j))
        st.assume(z3.ForAll([j, k], z3.Implies(z3.And(0 <= j, j < k, k < n), pos(j) < pos(k)),
                  patterns=[z3.MultiPattern(pos(j), pos(k))]))
        # a source item that passes the filter is in the result: triggered by the source item term as well
        pats_i = [inv(i)]
        if isinstance(item, Val) and item.t and z3.is_app(item.t[0]) and item.t[0].num_args() > 0:
            pats_i.append(item.t[0])
        st.assume(z3.ForAll([i], z3.Implies(z3.And(0 <= i, i < src.n, c),
                  z3.And(0 <= inv(i), inv(i) < n, pos(inv(i)) == i)),
                  patterns=pats_i))
        res.comp_info = (src, pos, inv, c, e, i)
        return [(st, res)]

    def ev_DictComp(self, node, st):
        src, bind, cond = self._comp_parts(node, st)
        i = z3.Int(fresh_name("ci"))
        self.push_binder([i], z3.And(0 <= i, i < src.n))
        try:
            item = src.item_at(i)
            c, s2 = cond(item, st)
            self.binders[-1] = (self.binders[-1][0], z3.And(self.binders[-1][1], c))   # the filter holds wherever the element expression is evaluated
            k = self.ev_pure(node.key, s2)
            v = self.ev_pure(node.value, s2)
        finally:
            self.pop_binder()
        ds = DictSort(k.sort, v.sort)
        res = fresh(ds, "dc")
        kk = z3.Const(fresh_name("dk"), k.sort.z)
        last = z3.Function(fresh_name("last"), k.sort.z, z3.IntSort())
        # membership
        st.assume(z3.ForAll([kk], z3.Select(res.t[2], kk) ==
                  z3.Exists([i], z3.And(0 <= i, i < src.n, c, k.z == kk))))
        st.assume(res.t[0] >= 0)
        self.assume_dict_wf(st, res)
        sub = lambda t, to: z3.substitute(t, (i, to))
        j = z3.Int(fresh_name("dj"))
        st.assume(z3.ForAll([kk], z3.Implies(z3.Select(res.t[2], kk), z3.And(
            0 <= last(kk), last(kk) < src.n, sub(c, last(kk)), sub(k.z, last(kk)) == kk,
            z3.And(*[z3.Select(a, kk) == sub(x, last(kk)) for a, x in zip(res.t[3:], v.t)]),
            z3.ForAll([j], z3.Implies(z3.And(last(kk) < j, j < src.n),
                      z3.Not(z3.And(sub(c, j), sub(k.z, j) == kk))))))))
        return [(st, res)]

    def assume_dict_wf(self, st, d: Val):
        klen, karr, has = d.t[0], d.t[1], d.t[2]
        i = z3.Int(fresh_name("wi"))
        kz = d.sort.key.z
        idx = self.dict_kidx(d)
        x = z3.Const(fresh_name("wk"), kz)
        st.assume(klen >= 0)
        st.assume(z3.Implies(klen > 0, z3.Select(has, z3.Select(karr, 0))))     # ground instance: a non-empty dict has its first key
        st.assume(z3.ForAll([i], z3.Implies(z3.And(0 <= i, i < klen),
                  z3.And(z3.Select(has, z3.Select(karr, i)), idx(z3.Select(karr, i)) == i)),
                  patterns=[z3.Select(karr, i)]))
        st.assume(z3.ForAll([x], z3.Implies(z3.Select(has, x),
                  z3.And(0 <= idx(x), idx(x) < klen, z3.Select(karr, idx(x)) == x)),
                  patterns=[z3.Select(has, x)]))

    def named(self, st, v: Val) -> Val:
        """Give every non-trivial component term a name (patterns cannot contain ite/lambda)."""
        comps = []
        for t in v.t:
            if z3.is_const(t) or z3.is_int_value(t):
                comps.append(t)
            else:
                c = z3.Const(fresh_name("nm"), t.sort())
                st.assume(c == t)
                comps.append(c)
        return Val(v.sort, tuple(comps))

    def append_list(self, st, a: Val, x: Val) -> Val:
        """a + [x] as a fresh list with trigger-friendly two-directional axioms."""
        if z3.is_int_value(z3.simplify(a.t[0])):
            return list_append(a, x)          # concrete length: plain stores
        a = self.named(st, a)
        r = fresh(a.sort, "app")
        n = a.t[0]
        i = z3.Int(fresh_name("ai"))
        st.assume(r.t[0] == n + 1)
        for ra, aa, xc in zip(r.t[1:], a.t[1:], x.t):
            st.assume(z3.Select(ra, n) == xc)
            st.assume(z3.ForAll([i], z3.Implies(z3.And(0 <= i, i < n), z3.Select(ra, i) == z3.Select(aa, i)),
                      patterns=[z3.Select(ra, i), z3.Select(aa, i)]))
        return r

    def concat_lists(self, st, a: Val, b: Val) -> Val:
        """a ++ b as a fresh list with two-directional, trigger-friendly axioms."""
        a, b = self.named(st, a), self.named(st, b)
        r = fresh(a.sort, "cat")
        n1, n2 = a.t[0], b.t[0]
        i = z3.Int(fresh_name("ki"))
        st.assume(r.t[0] == n1 + n2)
        for ra, aa, ba in zip(r.t[1:], a.t[1:], b.t[1:]):
            st.assume(z3.ForAll([i], z3.Implies(z3.And(0 <= i, i < n1), z3.Select(ra, i) == z3.Select(aa, i)),
                      patterns=[z3.Select(ra, i), z3.Select(aa, i)]))
            st.assume(z3.ForAll([i], z3.Implies(z3.And(0 <= i, i < n2), z3.Select(ra, n1 + i) == z3.Select(ba, i)),
                      patterns=[z3.Select(ba, i)]))
            st.assume(z3.ForAll([i], z3.Implies(z3.And(n1 <= i, i < n1 + n2), z3.Select(ra, i) == z3.Select(ba, i - n1)),
                      patterns=[z3.Select(ra, i)]))
        return r

    def dict_kidx(self, d: Val):
        """Canonical key -> position function of a dict value (keyed on its key array)."""
        key = "kidx:" + d.t[1].sexpr()
        if key not in self._fn_cache:
            self._fn_cache[key] = z3.Function(fresh_name("kidx"), d.sort.key.z, z3.IntSort())
        return self._fn_cache[key]

    # binder bookkeeping (for obligations generated under a quantified variable)
    def push_binder(self, vars_, guard):
        self.binders.append((vars_, guard))

    def pop_binder(self):
        self.binders.pop()

    # ---------------------------------------------------------------- call dispatch
    def ev_Call(self, node, st):
        out = []
        for s, f in self.ev(node.func, st):
            out += self.call(node, s, f)
        return out

    def ev_args(self, node, st, sorts=None):
        """Evaluate positional + keyword args; returns list of (st, [vals], {kw: val})."""
        cur = [(st, [], {})]
        for a in node.args:
            if isinstance(a, ast.Starred):
                raise Unsupported(node, "*args")
            nxt = []
            for s, acc, kw in cur:
                for s2, v in self.ev(a, s):
                    nxt.append((s2, acc + [v], kw))
            cur = nxt
        for k in node.keywords:
            if k.arg is None:
                # **kwargs forwarding of an opaque mapping: carried along, never inspected
                vs = [self.ev1(k.value, s) for s, _, _ in cur]
                if all(isinstance(v, Val) and v.sort == OPAQUE for v in vs):
                    continue
                raise Unsupported(node, "**kwargs")
            nxt = []
            for s, acc, kw in cur:
                for s2, v in self.ev(k.value, s):
                    kw2 = dict(kw)
                    kw2[k.arg] = v
                    nxt.append((s2, acc, kw2))
            cur = nxt
        return cur

    def call(self, node, st, f):
        if isinstance(f, SpecFnRef):
            return self.call_spec(node, st, f.name)
        if isinstance(f, Builtin):
            return self.call_builtin(node, st, f.name)
        if isinstance(f, ClassRef):
            return self.call_ctor(node, st, f.name)
        if isinstance(f, BoundMethod):
            return self.call_method(node, st, f)
        if isinstance(f, Closure):
            res = []
            for s, args, kw in self.ev_args(node, st):
                res += self.call_closure(node, s, f, args, kw)
            return res
        if isinstance(f, ModuleRef):
            if f.name == "asyncio.create_task":
                # the coroutine passed in is NOT run here: it becomes a concurrently scheduled task (a separate entry point of
                # the interpreter, assumption A-seq); the call only yields a task handle
                h = fresh(OPAQUE, "task")
                st.assume(h.z != OPAQUE.null)
                return [(st, h)]
            return self.call_external(node, st, f.name, None)
        if type(f).__name__ == "ContractFn":
            res = []
            for s, args, kw in self.ev_args(node, st):
                res += self.apply_contract(node, s, f.contract, args, kw)
            return res
        if isinstance(f, Val):
            return self.call_value(node, st, f)
        raise Unsupported(node, f"call of {f!r}")

    # ---------------------------------------------------------------- spec functions
    def call_spec(self, node, st, name):
        w = self.world
        if name.startswith(("forall:", "exists:")):
            q, sorts = name.split(":", 1)
            lam = node.args[0]
            if not isinstance(lam, ast.Lambda):
                raise Unsupported(node, "quantifier needs a lambda")
            svals = []
            # bound variables are named by binder NESTING DEPTH, not by a global counter: two expansions of the same clause
            # text over the same arguments are then the identical z3 term (hash-consed), so "premise P of an invariant" and
            # "premise P of the postcondition" need no re-proof.  Terms passed in from an enclosing scope carry smaller depths,
            # so an inner binder can never capture them.
            self.qdepth = getattr(self, "qdepth", 0) + 1
            for sname, a in zip(sorts.split(","), lam.args.args):
                so = self.sort_by_name(sname.strip())
                svals.append((a.arg, Val(so, (z3.Const(f"{a.arg}!q{self.qdepth}", so.z),))))
            s2 = st.copy()
            for n_, v in svals:
                s2.env[n_] = v
            old = self.spec_mode
            self.spec_mode = True
            try:
                body = self.truthy(self.ev1(lam.body, s2))
                pats = []
                if len(node.args) > 1:
                    pl = node.args[1]
                    pv = self.ev1(pl.body, s2)
                    items = pv.items if isinstance(pv, PyTuple) else (pv,)
                    terms = [x.z if isinstance(x, Val) else x for x in items]
                    pats = [z3.MultiPattern(*terms)] if len(terms) > 1 else terms
            finally:
                self.spec_mode = old
                self.qdepth -= 1
            vs = [v.z for _, v in svals]
            if q == "forall":
                if pats:
                    try:
                        return [(st, vbool(z3.ForAll(vs, body, patterns=pats)))]
                    except z3.Z3Exception:
                        # the requested trigger is not a legal pattern for this value of the terms (e.g. a list that is a
                        # store chain / ite here): a trigger is only a hint, so fall back to z3's own choice
                        pass
                return [(st, vbool(z3.ForAll(vs, body)))]
            return [(st, vbool(z3.Exists(vs, body)))]
        if name == "old":
            if st.pre is None:
                raise Unsupported(node, "old() outside a postcondition")
            s_old = St(dict(st.env), st.pre.heap, [], None, st.pre.ghost)
            return [(st, self.ev1(node.args[0], s_old))]
        args = [self.ev1(a, st) for a in node.args]
        if name == "append":
            return [(st, self.append_list(st, args[0], self.coerce(args[1], args[0].sort.elem, node)))]
        if name == "cat":
            return [(st, self.concat_lists(st, args[0], args[1]))]
        if name == "store":
            return [(st, Val(args[0].sort, (z3.Store(args[0].z, self.coerce(args[1], args[0].sort.key, node).z,
                                                     self.coerce(args[2], args[0].sort.val, node).z),)))]
        if name == "keys":
            return [(st, dict_keys(args[0]))]
        if name == "keyidx":
            return [(st, vint(self.dict_kidx(args[0])(self.coerce(args[1], args[0].sort.key, node).z)))]
        if name == "implies":
            return [(st, vbool(z3.Implies(self.truthy(args[0]), self.truthy(args[1]))))]
        if name == "iff":
            return [(st, vbool(self.truthy(args[0]) == self.truthy(args[1])))]
        if name == "ite":
            return [(st, self.ite(self.truthy(args[0]), args[1], args[2], node))]
        if name == "set_eq":
            x = z3.Const(fresh_name("ex"), args[0].sort.elem.z)
            return [(st, vbool(z3.ForAll([x], z3.Select(args[0].t[0], x) == z3.Select(args[1].t[0], x))))]
        if name == "subset":
            x = z3.Const(fresh_name("ex"), args[0].sort.elem.z)
            return [(st, vbool(z3.ForAll([x], z3.Implies(z3.Select(args[0].t[0], x), z3.Select(args[1].t[0], x)))))]
        if name == "seq_eq":
            return [(st, vbool(self.equal(args[0], args[1], node)))]
        if name == "same":
            # representation equality (every component term equal): stronger than element-wise equality and free for the
            # solver - meant for invariants saying "this container has not been touched"
            a_, b_ = args[0], self.coerce(args[1], args[0].sort, node)
            return [(st, vbool(z3.And(*[x == y for x, y in zip(a_.t, b_.t)])))]
        if name == "distinct":
            return [(st, vbool(z3.Distinct(*[a.z for a in args])))]
        sf = w.specfns[name]
        if sf.macro is not None:
            formals, text = sf.macro
            s2 = St(dict(zip(formals, args)), st.heap, [], st.pre, st.ghost)
            if "self" in st.env:
                s2.env["self"] = st.env["self"]
            old = self.spec_mode
            self.spec_mode = True
            try:
                r = self.ev1(self.parse_expr(text), s2)
            finally:
                self.spec_mode = old
            return [(st, r)]
        cargs = [self.coerce(a, so, node).z for a, so in zip(args, sf.argsorts)]
        return [(st, Val(sf.ressort, (sf.fn(*cargs),)))]

    def sort_by_name(self, name: str) -> Sort:
        if name == "int":
            return INT
        if name == "str":
            return STR
        if name == "bool":
            return BOOL
        if name in self.world.classes:
            return Ref(name)
        if name in self.world.py2sort:
            return self.world.py2sort[name]
        if name == "Opaque":
            return OPAQUE
        if name.endswith("Set") and name[:-3] in self.world.classes:
            return SetSort(Ref(name[:-3]))          # e.g. NodeSet
        raise Unsupported(None, f"unknown sort name {name}")

    _expr_cache = {}

    def parse_expr(self, text: str):
        if text not in self._expr_cache:
            self._expr_cache[text] = ast.parse(text.strip(), mode="eval").body
        return self._expr_cache[text]

    def spec_eval(self, text: str, st: St):
        old = self.spec_mode
        self.spec_mode = True
        try:
            return self.ev1(self.parse_expr(text), st)
        finally:
            self.spec_mode = old

    def spec_bool(self, text: str, st: St):
        return self.truthy(self.spec_eval(text, st))

    # ---------------------------------------------------------------- builtins
    def call_builtin(self, node, st, name):
        if name in ("list", "set", "dict", "frozenset") and not node.args and not node.keywords:
            hint = self.expected_sort
            if name == "list" and isinstance(hint, ListSort):
                return [(st, list_empty(hint.elem))]
            if name in ("set", "frozenset") and isinstance(hint, SetSort):
                return [(st, set_empty(hint.elem))]
            if name == "dict" and isinstance(hint, DictSort):
                return [(st, self.dict_empty(hint))]
            raise Unsupported(node, f"empty {name}() without sort hint")
        if name in ("any", "all", "next", "sorted", "max", "min", "list", "set", "frozenset"):
            return self.call_reducer(node, st, name)
        res = []
        for s, args, kw in self.ev_args(node, st):
            res += self.builtin(node, s, name, args, kw)
        return res

    def builtin(self, node, st, name, args, kw):
        if name == "len":
            v = args[0]
            if isinstance(v, Val):
                if isinstance(v.sort, (ListSort, DictSort)):
                    return [(st, vint(v.t[0]))]
                if v.sort == STR:
                    return [(st, vint(z3.Length(v.z)))]
            if isinstance(v, PyTuple):
                return [(st, vint(len(v.items)))]
            raise Unsupported(node, f"len of {v!r}")
        if name == "bool":
            return [(st, vbool(self.truthy(args[0])))]
        if name == "isinstance":
            return [(st, vbool(self.isinstance_(node, st, args[0], args[1])))]
        if name == "id":
            v = args[0]
            f = self.pyid_fn(v.sort)
            return [(st, vint(f(v.z)))]
        if name == "str":
            if isinstance(args[0], Val) and args[0].sort == STR:
                return [(st, args[0])]
            return [(st, fresh(STR, "str"))]
        if name == "float" and len(args) == 1 and isinstance(args[0], Val) and (
                args[0].sort == OPAQUE or (isinstance(args[0].sort, OptSort) and args[0].sort.inner == OPAQUE)):
            # floats are not modelled: float(<number the library itself produced>) is an unconstrained opaque value;
            # float(None) would be a TypeError
            if isinstance(args[0].sort, OptSort):
                self.oblige(st, "safe", f"not-none@{getattr(node, 'lineno', 0)}:float", z3.Not(args[0].t[0]), node)
            return [(st, fresh(OPAQUE, "float"))]
        if name == "callable":
            return [(st, vbool(self.callable_(node, st, args[0])))]
        if name == "getattr":
            obj, attr = args[0], args[1]
            if z3.is_string_value(attr.z):
                a = attr.z.as_string()
                try:
                    return self.get_attr(node, st, obj, a)
                except Unsupported:
                    if len(args) > 2:
                        return [(st, args[2])]
                    raise
        raise Unsupported(node, f"builtin {name}")

    def pyid_fn(self, sort):
        key = "pyid_" + sort.name
        if key not in self._fn_cache:
            f = z3.Function(key, sort.z, z3.IntSort())
            self._fn_cache[key] = f
            x, y = z3.Consts(f"idx_{sort.name} idy_{sort.name}", sort.z)
            self.extra_axioms.append(z3.ForAll([x, y], z3.Implies(f(x) == f(y), x == y),
                                     patterns=[z3.MultiPattern(f(x), f(y))]))
        return self._fn_cache[key]

    def isinstance_(self, node, st, v, cls):
        names = [c.name for c in cls.items] if isinstance(cls, PyTuple) else [cls.name]
        if isinstance(v, Val):
            hook = self.world_isinstance(v, names)
            if hook is not None:
                return hook
            pyname = {INT: ["int", "float"], STR: ["str"], BOOL: ["bool", "int"]}.get(v.sort)
            if pyname is not None:
                return z3.BoolVal(any(n in pyname for n in names))
            if isinstance(v.sort, ListSort):
                return z3.BoolVal("list" in names)
            if isinstance(v.sort, DictSort):
                return z3.BoolVal("dict" in names)
            if isinstance(v.sort, OptSort):
                inner = self.isinstance_(node, st, opt_val(v), cls)
                return z3.And(z3.Not(v.t[0]), inner)
            if isinstance(v.sort, NoneSort):
                return z3.BoolVal(False)
            if isinstance(v.sort, RefSort):
                ok = any(self.world.py2sort.get(n) == v.sort for n in names)
                return z3.And(z3.BoolVal(ok), v.z != v.sort.null)
        raise Unsupported(node, f"isinstance({v!r}, {names})")

    def world_isinstance(self, v, names):
        h = getattr(self.world, "isinstance_hook", None)
        return h(self, v, names) if h else None

    def callable_(self, node, st, v):
        h = getattr(self.world, "callable_hook", None)
        if h:
            r = h(self, v)
            if r is not None:
                return r
        if isinstance(v, (Closure, BoundMethod)):
            return z3.BoolVal(True)
        if isinstance(v, Val) and v.sort in (INT, STR, BOOL):
            return z3.BoolVal(False)
        raise Unsupported(node, f"callable({v!r})")

    # ---------------------------------------------------------------- reducers over generators
    def call_reducer(self, node, st, name):
        a0 = node.args[0]
        kws = {k.arg: k.value for k in node.keywords}
        if name in ("any", "all"):
            if not isinstance(a0, (ast.GeneratorExp, ast.ListComp)):
                raise Unsupported(node, f"{name}() needs a generator expression")
            src, bind, cond = self._comp_parts(a0, st)
            i = z3.Int(fresh_name("ri"))
            self.push_binder([i], z3.And(0 <= i, i < src.n))
            try:
                c, s2 = cond(src.item_at(i), st)
                self.binders[-1] = (self.binders[-1][0], z3.And(self.binders[-1][1], c))   # the filter holds wherever the element expression is evaluated
                e = self.truthy(self.ev_pure(a0.elt, s2))
            finally:
                self.pop_binder()
            rng = z3.And(0 <= i, i < src.n, c)
            if name == "any":
                return [(st, vbool(z3.Exists([i], z3.And(rng, e))))]
            return [(st, vbool(z3.ForAll([i], z3.Implies(rng, e))))]
        if name == "next":
            if not isinstance(a0, ast.GeneratorExp):
                raise Unsupported(node, "next() needs a generator expression")
            src, bind, cond = self._comp_parts(a0, st)
            i = z3.Int(fresh_name("ni"))
            self.push_binder([i], z3.And(0 <= i, i < src.n))
            try:
                c, s2 = cond(src.item_at(i), st)
                self.binders[-1] = (self.binders[-1][0], z3.And(self.binders[-1][1], c))   # the filter holds wherever the element expression is evaluated
                e = self.ev_pure(a0.elt, s2)
            finally:
                self.pop_binder()
            j = z3.Int(fresh_name("nj"))
            found = z3.Exists([i], z3.And(0 <= i, i < src.n, c))
            cj = z3.substitute(c, (i, j))
            ej = Val(e.sort, tuple(z3.substitute(x, (i, j)) for x in e.t))
            # first matching index j (sets: the enumeration order is arbitrary anyway)
            s_found = st.copy()
            s_found.assume(z3.And(0 <= j, j < src.n, cj))
            s_found.assume(z3.ForAll([i], z3.Implies(z3.And(0 <= i, i < j), z3.Not(c))))
            out = []
            if self.feasible(s_found):
                out.append((s_found, ej))
            s_none = st.copy().assume(z3.Not(found))
            if self.feasible(s_none):
                if len(node.args) > 1:
                    d = self.ev1(node.args[1], s_none)
                    out.append((s_none, self.coerce(d, e.sort, node) if isinstance(d.sort, NoneSort) else d))
                else:
                    self.raised.append(Outcome("raise", s_none, ExcVal("StopIteration")))
            return out
        if name in ("list", "set", "frozenset"):
            v = self.ev1(a0, st) if not isinstance(a0, ast.GeneratorExp) else None
            if v is None:
                fake = ast.ListComp(elt=a0.elt, generators=a0.generators) if name == "list" else ast.SetComp(elt=a0.elt, generators=a0.generators)
                ast.copy_location(fake, a0)
                return self.ev(fake, st)
            if name == "list":
                if isinstance(v, (DictItems, DictValues)):
                    return [(st, v)]           # a snapshot of an immutable symbolic dict value is the value itself
                if isinstance(v, Val) and isinstance(v.sort, ListSort):
                    return [(st, v)]
                if isinstance(v, Val) and isinstance(v.sort, SetSort):
                    return [(st, self.set_enumeration(st, v))]
                if isinstance(v, Val) and isinstance(v.sort, DictSort):
                    return [(st, dict_keys(v))]
            if name in ("set", "frozenset"):
                if isinstance(v, Val) and isinstance(v.sort, SetSort):
                    return [(st, v)]
                if isinstance(v, Val) and isinstance(v.sort, ListSort):
                    i = z3.Int(fresh_name("li"))
                    r_ = set_lambda(v.sort.elem, lambda y: z3.Exists(
                        [i], z3.And(0 <= i, i < v.t[0], z3.Select(v.t[1], i) == y)))
                    r_.from_list = v            # remembered for set_enumeration: every list element is a member
                    return [(st, r_)]
            raise Unsupported(node, f"{name}({v!r})")
        if name == "sorted":
            if isinstance(a0, ast.GeneratorExp):
                # sorted(<generator>) consumes the generator into a list first: same as sorted([<comprehension>])
                fake = ast.ListComp(elt=a0.elt, generators=a0.generators)
                ast.copy_location(fake, a0)
                r_ = self.ev(fake, st)
                if len(r_) != 1:
                    raise Unsupported(node, "forking generator under sorted()")
                v = r_[0][1]
            else:
                v = self.ev1(a0, st)
            if isinstance(v, Val) and isinstance(v.sort, SetSort):
                v = self.set_enumeration(st, v)
            key = self.ev1(kws["key"], st) if "key" in kws else None
            rev = False
            if "reverse" in kws:
                rv = kws["reverse"]
                if not (isinstance(rv, ast.Constant) and isinstance(rv.value, bool)):
                    raise Unsupported(node, "sorted(reverse=<non-literal>)")
                rev = rv.value
            return [(st, self.sorted_list(node, st, v, key, rev))]
        if name in ("max", "min"):
            v = self.ev1(a0, st)
            if isinstance(v, Val) and isinstance(v.sort, SetSort):
                v = self.set_enumeration(st, v)
            key = self.ev1(kws["key"], st) if "key" in kws else None
            return self.max_list(node, st, v, key, name == "max")
        raise Unsupported(node, name)

    def apply_key(self, node, st, key, item):
        if key is None:
            return item
        if isinstance(key, Builtin) and key.name == "len":
            return self.builtin(node, st, "len", [item], {})[0][1]
        if isinstance(key, Closure):
            r = self.call_closure(node, st, key, [item], {}, pure=True)
            if len(r) != 1:
                raise Unsupported(node, "forking key function")
            return r[0][1]
        raise Unsupported(node, f"key function {key!r}")

    def apply_key_nocheck(self, node, st, key, item):
        old = self.safety
        self.safety = False
        try:
            return self.apply_key(node, st, key, item)
        finally:
            self.safety = old

    def sorted_list(self, node, st, v: Val, key, reverse: bool) -> Val:
        """Library contract of sorted()/list.sort(): a stable permutation ordered by key."""
        v = self.named(st, v)
        n = v.t[0]
        res = fresh(v.sort, "sorted")
        p = z3.Function(fresh_name("perm"), z3.IntSort(), z3.IntSort())
        q = z3.Function(fresh_name("qerm"), z3.IntSort(), z3.IntSort())
        i, j = z3.Int(fresh_name("si")), z3.Int(fresh_name("sj"))
        st.assume(res.t[0] == n)
        ri = [z3.Select(a, i) for a in res.t[1:]]
        vi = [z3.Select(a, i) for a in v.t[1:]]
        st.assume(z3.ForAll([i], z3.Implies(z3.And(0 <= i, i < n), z3.And(
            0 <= p(i), p(i) < n, q(p(i)) == i, eq_vals(list_get(res, i), list_get(v, p(i))))),
            patterns=[p(i)] + ri[:1]))
        st.assume(z3.ForAll([i], z3.Implies(z3.And(0 <= i, i < n), z3.And(
            0 <= q(i), q(i) < n, p(q(i)) == i)), patterns=[q(i)] + vi[:1]))
        self.push_binder([i, j], z3.And(0 <= i, i < n, 0 <= j, j < n))
        try:
            # key(x) is evaluated for every element: its safety obligations are quantified over the index
            ki = self.apply_key(node, st, key, list_get(v, i))
            kj = self.apply_key(node, st, key, list_get(v, j))
        finally:
            self.pop_binder()
        ki = self.apply_key_nocheck(node, st, key, list_get(res, i))
        kj = self.apply_key_nocheck(node, st, key, list_get(res, j))
        le = self.less(kj, ki, False, node) if reverse else self.less(ki, kj, False, node)
        rj = z3.Select(res.t[1], j)
        st.assume(z3.ForAll([i, j], z3.Implies(z3.And(0 <= i, i < j, j < n), le),
                  patterns=[z3.MultiPattern(ri[0], rj)]))
        # stability
        st.assume(z3.ForAll([i, j], z3.Implies(
            z3.And(0 <= i, i < j, j < n, self.equal(ki, kj, node)), p(i) < p(j)),
            patterns=[z3.MultiPattern(ri[0], rj)]))
        res.perm_info = (p, q, v)
        return res

    def max_list(self, node, st, v: Val, key, is_max: bool):
        n = v.t[0]
        j = z3.Int(fresh_name("mj"))
        i = z3.Int(fresh_name("mi"))
        out = []
        s_empty = st.copy().assume(n <= 0)
        if self.feasible(s_empty):
            self.raised.append(Outcome("raise", s_empty, ExcVal("ValueError")))
        s = st.copy().assume(n > 0)
        if self.feasible(s):
            s.assume(z3.And(0 <= j, j < n))
            self.push_binder([i], z3.And(0 <= i, i < n))
            try:
                ki = self.apply_key(node, s, key, list_get(v, i))
            finally:
                self.pop_binder()
            kj = self.apply_key_nocheck(node, s, key, list_get(v, j))
            ge = self.less(ki, kj, False, node) if is_max else self.less(kj, ki, False, node)
            gt = self.less(ki, kj, True, node) if is_max else self.less(kj, ki, True, node)
            s.assume(z3.ForAll([i], z3.Implies(z3.And(0 <= i, i < n), ge)))
            s.assume(z3.ForAll([i], z3.Implies(z3.And(0 <= i, i < j), gt)))   # first extremal
            r = list_get(v, j)
            r.argidx = j
            out.append((s, r))
        return out

    # ---------------------------------------------------------------- closures
    def call_closure(self, node, st, clo: Closure, args, kw, pure=False):
        fn = clo.node
        params = [a.arg for a in fn.args.args]
        s2 = st.copy()
        saved = dict(s2.env)
        # closure sees its defining environment (by reference semantics approximated
        # by: defining env overlaid with the CURRENT values of the same names)
        env = dict(clo.env)
        for k_, v_ in st.env.items():
            if k_ in env:
                env[k_] = v_
        for p, a in zip(params, args):
            env[p] = a
        for k_, a in kw.items():
            env[k_] = a
        if len(args) + len(kw) < len(params):
            defaults = fn.args.defaults
            for p, d in zip(params[-len(defaults):], defaults):
                if p not in env or p in saved and env[p] is saved.get(p):
                    pass
        s2.env = env
        if isinstance(fn, ast.Lambda):
            res = [(s, v) for s, v in self.ev(fn.body, s2)]
            for s, _ in res:
                s.env = dict(saved)
            return res
        outs = self.exec_block(fn.body, s2)
        res = []
        for o in outs:
            o.st.env = dict(saved)
            if o.kind == "return":
                res.append((o.st, o.val))
            elif o.kind == "fall":
                res.append((o.st, VNONE))
            elif o.kind == "raise":
                self.raised.append(o)
            else:
                raise Unsupported(node, "break/continue escaping closure")
        return res

    # ---------------------------------------------------------------- methods on values
    def call_method(self, node, st, bm: BoundMethod):
        recv, name = bm.recv, bm.name
        w = self.world
        # self.<method> / Class.<method> -> contract
        if isinstance(recv, ClassRef) or (isinstance(recv, Val) and isinstance(recv.sort, RefSort)
                                          and recv.sort.cls == w.self_sort.cls and self.is_self(recv)):
            c = self.lookup_contract(name)
            if c is not None:
                res = []
                for s, args, kw in self.ev_args(node, st):
                    res += self.apply_contract(node, s, c, args, kw)
                return res
            return self.call_external(node, st, ("self." + name) if not isinstance(recv, ClassRef) else recv.name + "." + name, recv)
        if isinstance(recv, Val):
            res = []
            for s, args, kw in self.ev_args(node, st):
                res += self.value_method(node, s, recv, name, args, kw)
            return res
        if isinstance(recv, ModuleRef):
            return self.call_external(node, st, recv.name + "." + name, None)
        raise Unsupported(node, f"method {name} on {recv!r}")

    def value_method(self, node, st, recv: Val, name, args, kw):
        s = recv.sort
        if s == STR:
            h = getattr(self.world, "str_method_hook", None)
            if h:
                r = h(self, st, recv, name, args)
                if r is not None:
                    return [(st, r)]
            if name == "join":
                return [(st, fresh(STR, "joined"))]       # text built for a message: an unconstrained string
            if name in ("startswith", "endswith"):
                a = args[0]
                pats = a.items if isinstance(a, PyTuple) else (a,)
                mkp = (lambda p: z3.PrefixOf(p.z, recv.z)) if name == "startswith" else (lambda p: z3.SuffixOf(p.z, recv.z))
                return [(st, vbool(z3.Or(*[mkp(p) for p in pats])))]
        if isinstance(s, ListSort):
            tgt = self.recv_lvalue(node)
            if name in ("append", "put", "put_nowait"):      # asyncio.Queue / queue.Queue are modelled as lists (FIFO: put = append)
                self.store_lvalue(tgt, st, self.append_list(st, self.load_lvalue(tgt, st), self.coerce(args[0], s.elem, node)))
                return [(st, VNONE)]
            if name == "extend":
                other = args[0]
                if isinstance(other, Val) and isinstance(other.sort, SetSort):
                    other = self.set_enumeration(st, other)
                self.store_lvalue(tgt, st, self.concat_lists(st, self.load_lvalue(tgt, st), other))
                return [(st, VNONE)]
            if name == "reverse":
                self.store_lvalue(tgt, st, list_reverse(self.load_lvalue(tgt, st)))
                return [(st, VNONE)]
            if name == "sort":
                kn = {k.arg: k.value for k in node.keywords}
                key = self.ev1(kn["key"], st) if "key" in kn else None
                rev = bool(kn["reverse"].value) if "reverse" in kn else False
                self.store_lvalue(tgt, st, self.sorted_list(node, st, self.load_lvalue(tgt, st), key, rev))
                return [(st, VNONE)]
            if name == "copy":
                return [(st, recv)]
            if name == "clear":
                self.store_lvalue(tgt, st, list_empty(s.elem))
                return [(st, VNONE)]
            if name == "task_done":
                return [(st, VNONE)]          # asyncio.Queue bookkeeping for join(): no effect on the modelled queue
            if name in ("popleft", "get"):
                cur = self.named(st, self.load_lvalue(tgt, st))
                n = cur.t[0]
                out = []
                if name == "popleft":
                    s_empty = st.copy().assume(n <= 0)
                    if self.feasible(s_empty):
                        self.raised.append(Outcome("raise", s_empty, ExcVal("IndexError")))
                # `await queue.get()` BLOCKS while the queue is empty (other tasks are the producers, A-seq): control comes back
                # only with an element - the empty case is not a path of this function
                st.assume(n > 0)
                head = list_get(cur, z3.IntVal(0))
                rest = fresh(cur.sort, "rest")
                i = z3.Int(fresh_name("pi"))
                st.assume(rest.t[0] == n - 1)
                for ra, ca in zip(rest.t[1:], cur.t[1:]):
                    st.assume(z3.ForAll([i], z3.Implies(z3.And(0 <= i, i < n - 1), z3.Select(ra, i) == z3.Select(ca, i + 1)),
                              patterns=[z3.Select(ra, i)]))
                    st.assume(z3.ForAll([i], z3.Implies(z3.And(1 <= i, i < n), z3.Select(ra, i - 1) == z3.Select(ca, i)),
                              patterns=[z3.Select(ca, i)]))
                self.store_lvalue(tgt, st, rest)
                return [(st, head)]
        if isinstance(s, SetSort):
            if name == "copy":
                return [(st, recv)]
            tgt = self.recv_lvalue(node)
            cur = self.load_lvalue(tgt, st)
            if name == "add":
                self.store_lvalue(tgt, st, set_add(cur, self.coerce(args[0], s.elem, node)))
                return [(st, VNONE)]
            if name == "discard":
                self.store_lvalue(tgt, st, set_discard(cur, self.coerce(args[0], s.elem, node)))
                return [(st, VNONE)]
            if name == "clear":
                self.store_lvalue(tgt, st, set_empty(s.elem))
                return [(st, VNONE)]
            if name == "update":
                o = args[0]
                if isinstance(o.sort, SetSort):
                    self.store_lvalue(tgt, st, set_lambda(s.elem, lambda y: z3.Or(z3.Select(cur.t[0], y), z3.Select(o.t[0], y))))
                    return [(st, VNONE)]
        if isinstance(s, DictSort):
            if name == "get":
                k = args[0]
                if isinstance(k.sort, OptSort) and k.sort.inner == s.key:
                    has = z3.And(z3.Not(k.t[0]), dict_has(recv, opt_val(k)))
                    k = opt_val(k)
                else:
                    k = self.coerce(k, s.key, node)
                    has = dict_has(recv, k)
                v = dict_get(recv, k)
                d = args[1] if len(args) > 1 else VNONE
                if isinstance(d, PyTuple) and not d.items:
                    d = self.coerce(d, v.sort, node)
                if isinstance(d.sort, NoneSort):
                    if isinstance(v.sort, RefSort):
                        d = mk(v.sort, v.sort.null)
                    elif isinstance(v.sort, OptSort):
                        d = opt_none(v.sort.inner)
                    else:
                        v = opt_some(v)
                        d = opt_none(v.sort.inner)
                return [(st, self.ite(has, v, d, node))]
            if name in ("pop", "clear"):
                tgt = self.recv_lvalue(node)
                cur = self.load_lvalue(tgt, st)
                new = fresh(cur.sort, "dict")
                self.assume_dict_wf(st, new)
                kz = cur.sort.key.z
                kk = z3.Const(fresh_name("pk"), kz)
                if name == "clear":
                    st.assume(new.t[0] == 0)
                    st.assume(z3.ForAll([kk], z3.Not(z3.Select(new.t[2], kk))))
                    self.store_lvalue(tgt, st, new)
                    return [(st, VNONE)]
                k = self.coerce(args[0], cur.sort.key, node)
                had = z3.Select(cur.t[2], k.z)
                st.assume(z3.ForAll([kk], z3.Select(new.t[2], kk) == z3.And(z3.Select(cur.t[2], kk), kk != k.z),
                          patterns=[z3.Select(new.t[2], kk), z3.Select(cur.t[2], kk)]))
                st.assume(new.t[0] == z3.If(had, cur.t[0] - 1, cur.t[0]))
                for na, ca in zip(new.t[3:], cur.t[3:]):
                    st.assume(z3.ForAll([kk], z3.Implies(z3.Select(new.t[2], kk), z3.Select(na, kk) == z3.Select(ca, kk)),
                              patterns=[z3.Select(na, kk)]))
                val = dict_get(cur, k)
                self.store_lvalue(tgt, st, new)
                if len(args) < 2:
                    return self.guarded(node, st, had, "KeyError", lambda s_: val, f"pop@{node.lineno}")
                d = args[1]
                if isinstance(d, Val) and isinstance(d.sort, NoneSort):
                    d = self.coerce(d, val.sort, node) if isinstance(val.sort, (RefSort, OptSort)) else fresh(val.sort, "popdefault")
                return [(st, self.ite(had, val, d, node))]
            if name == "values":
                return [(st, DictValues(recv))]
            if name == "items":
                return [(st, DictItems(recv))]
            if name == "keys":
                return [(st, dict_keys(recv))]
        # methods of schema objects and opaque values -> world hook
        return self.call_external(node, st, f"<{s.name}>.{name}", recv, args, kw)

    # lvalues for in-place container mutation ------------------------------------
    def recv_lvalue(self, node):
        f = node.func.value
        if isinstance(f, ast.Name):
            return ("env", f.id)
        if isinstance(f, ast.Attribute) and isinstance(f.value, ast.Name) and f.value.id == "self":
            return ("heap", "self." + f.attr)
        raise Unsupported(node, f"in-place mutation of {ast.unparse(f)}")

    def load_lvalue(self, tgt, st):
        return st.env[tgt[1]] if tgt[0] == "env" else st.heap[tgt[1]]

    def store_lvalue(self, tgt, st, v):
        if tgt[0] == "env":
            st.env[tgt[1]] = v
        else:
            self.write_heap(st, tgt[1], v)

    def write_heap(self, st, loc, v):
        st.heap[loc] = v
        self.written.add(loc)

    # ---------------------------------------------------------------- contracts
    def lookup_contract(self, name):
        fn = getattr(self, "cur_fn", "") or ""
        return self.world.method_contract(name, fn.split(".")[0] if "." in fn else None)

    def apply_contract(self, node, st, c, args, kw):
        w = self.world
        self.used_contracts = getattr(self, "used_contracts", set())
        self.used_contracts.add(c.target)
        formals = list(c.params.keys())
        env = {"self": self.self_val}
        for fname, a in zip(formals, args):
            env[fname] = a
        for k_, a in kw.items():
            env[k_] = a
        for fname in formals:
            if fname not in env:
                d = self.param_default(c, fname)
                if d is None:
                    raise Unsupported(node, f"missing argument {fname} for {c.short}")
                env[fname] = d
        line = getattr(node, "lineno", 0)
        for gname, gsort in c.ghost_params.items():
            gv = st.env.get("ghostarg_" + gname)
            if gv is None:
                d = getattr(c, "ghost_param_defaults", {}).get(gname)
                gv = self.spec_eval(d, St(dict(env), st.heap, list(st.pc), None, st.ghost)) if d else fresh(gsort, "ghostarg_" + gname)
            env[gname] = self.coerce(gv, gsort, node)
        for fname in formals:
            a = env[fname]
            if isinstance(a, Val) and isinstance(a.sort, OptSort) and a.sort.inner == c.params[fname]:
                # Optional[T] passed where T is expected: legal only when it is not None here
                self.oblige(st, "safe", f"not-none@{line}:{fname}", z3.Not(a.t[0]), node)
                env[fname] = opt_val(a)
            else:
                env[fname] = self.coerce(a, c.params[fname], node)
            v_ = env[fname]
            if isinstance(v_, Val) and isinstance(v_.sort, ListSort):
                n_ = z3.simplify(v_.t[0])
                if z3.is_int_value(n_) and 0 < n_.as_long() <= 4 and not all(z3.is_const(t) for t in v_.t[1:]):
                    # a short list literal handed to a callee: give it a name and state its elements as ground facts, so that
                    # the callee's quantified clauses (forall i. ... xs[i] ...) have terms xs[0], xs[1] .. to be instantiated with
                    nm = self.named(st, v_)
                    for k_ in range(n_.as_long()):
                        for na, oa in zip(nm.t[1:], v_.t[1:]):
                            st.assume(z3.Select(na, k_) == z3.simplify(z3.Select(oa, k_)))
                    env[fname] = nm
        pre_st = St(env, st.heap, list(st.pc), None, st.ghost)
        # 1. preconditions
        for k_, r in enumerate(c.requires):
            g = self.spec_bool(r[6:] if r.startswith("ghost:") else r, pre_st)
            self.oblige(st, "pre", f"{c.short}#{k_}@{line}", g, node)
        # recursion: measure must decrease
        if c is self.contract and c.decreases:
            m_call = self.spec_eval(c.decreases, pre_st).z
            m_entry = self.entry_measure
            self.oblige(st, "decreases", f"rec:{c.short}@{line}", z3.And(m_call >= 0, m_call < m_entry), node)
        # 2. pure functions defined by an expression: substitute
        if c.pure and getattr(c, "returns_expr", None):
            v = self.spec_eval(c.returns_expr, pre_st)
            return [(st, v)]
        if self.under_binder and not c.pure:
            raise Unsupported(node, f"impure call {c.short} under a binder")
        # 3. havoc + assume post
        post = st.copy()
        for loc in c.modifies:
            self.havoc_loc(post, loc)
        res = fresh(c.result, "ret_" + c.short.split(".")[-1]) if c.result is not None else VNONE
        if c.result is not None:
            self.assume_wf(post, res)
        env2 = dict(env)
        env2["result"] = res
        for gname, gsort in c.ghosts.items():       # the callee's ghost outcome is unknown to the caller
            env2["final_" + gname] = fresh(gsort, "final_" + gname)
            env[("final_" + gname)] = env2["final_" + gname]
        for lname in getattr(c, "expose", []):      # likewise the final value of an exposed local (its sort is declared with c.local)
            lsort = c.locals.get(lname)
            if lsort is None:
                raise Unsupported(node, f"exposed local {lname} of {c.short} has no declared sort (c.local)")
            env2["final_" + lname] = fresh(lsort, "final_" + lname)
            self.assume_wf(post, env2["final_" + lname])
            env[("final_" + lname)] = env2["final_" + lname]
        # a container parameter the callee mutates in place (by reference): the caller's variable now holds the callee's
        # final value of it (declared with c.mutates_param(name); the final value is the exposed local final_<name>)
        for pname in getattr(c, "mutated_params", []):
            fin = env2.get("final_" + pname)
            if fin is None:
                raise Unsupported(node, f"mutated parameter {pname} of {c.short} is not exposed")
            arg_node = None
            if isinstance(node, ast.Call):
                if pname in formals and formals.index(pname) < len(node.args):
                    arg_node = node.args[formals.index(pname)]
                for k_ in node.keywords:
                    if k_.arg == pname:
                        arg_node = k_.value
            if isinstance(arg_node, ast.Name) and arg_node.id in post.env:
                post.env[arg_node.id] = fin
            elif arg_node is not None and not (isinstance(arg_node, ast.Constant) and arg_node.value is None):
                raise Unsupported(node, f"argument for mutated parameter {pname} must be a plain variable")
        post_st = St(env2, post.heap, [], pre_st, post.ghost)
        for lab, e in c.ensures:
            if lab.startswith("rt:"):
                continue
            post.assume(self.spec_bool(e, post_st))
        out = []
        # 4. exceptional exits
        for r in c.raises:
            sx = st.copy()
            for loc in c.modifies:
                self.havoc_loc(sx, loc)
            if r.when:
                sx.assume(self.spec_bool(r.when[6:] if r.when.startswith('ghost:') else r.when, pre_st))
            x_st = St(dict(env), sx.heap, [], pre_st, sx.ghost)
            for e in r.ensures:
                e = e[6:] if e.startswith("ghost:") else (e[7:] if e.startswith("assume:") else e)
                sx.assume(self.spec_bool(e, x_st))
            if self.feasible(sx):
                self.raised.append(Outcome("raise", sx, ExcVal(r.exc)))
            if getattr(r, "iff", False) and r.when:
                post.assume(z3.Not(self.spec_bool(r.when[6:] if r.when.startswith('ghost:') else r.when, pre_st)))
        if self.feasible(post):
            out.append((post, res))
        return out

    def param_default(self, c, fname):
        d = getattr(c, "defaults", {}).get(fname)
        if d is None:
            return None
        if d == "None":
            return VNONE
        return self.spec_eval(d, St({}, {}, []))

    def havoc_loc(self, st, loc):
        if isinstance(loc, str) and loc.startswith("self."):
            cur = st.heap[loc]
            st.heap[loc] = fresh(cur.sort, loc.replace(".", "_"))
        else:
            # a mutable field of a class: the heap value is one array (object -> component) per component
            cur = st.heap[loc]
            st.heap[loc] = Val(cur.sort, tuple(z3.Const(fresh_name("heap_" + "_".join(loc)), a.sort()) for a in cur.t))
            self.written.add(loc)
            return
        self.assume_wf(st, st.heap[loc])        # a havocked container is still a container (len >= 0, keys distinct)
        self.written.add(loc)

    # ---------------------------------------------------------------- world-defined calls
    def call_ctor(self, node, st, clsname):
        w = self.world
        if clsname in w.exc_parents:
            # exception constructor: arguments evaluated for effects/safety only
            res = []
            for s, args, kw in self.ev_args(node, st):
                res.append((s, ExcVal(clsname)))
            return res
        h = getattr(w, "ctor_hook", None)
        if h:
            res = []
            for s, args, kw in self.ev_args(node, st):
                r = h(self, node, s, clsname, args, kw)
                if r is None:
                    raise Unsupported(node, f"constructor {clsname}")
                res += r
            return res
        raise Unsupported(node, f"constructor {clsname}")

    def call_external(self, node, st, name, recv, args=None, kw=None):
        h = getattr(self.world, "external_hook", None)
        if h is None:
            raise Unsupported(node, f"external call {name}")
        if args is None:
            res = []
            for s, a, k in self.ev_args(node, st):
                r = h(self, node, s, name, recv, a, k)
                if r is None:
                    raise Unsupported(node, f"external call {name}")
                res += r
            return res
        r = h(self, node, st, name, recv, args, kw)
        if r is None:
            raise Unsupported(node, f"external call {name}")
        return r

    def call_value(self, node, st, f: Val):
        """Calling a first-class value (user callable etc.)."""
        return self.call_external(node, st, f"<call:{f.sort.name}>", f)

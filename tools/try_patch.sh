#!/bin/bash
# usage: try_patch.sh <patch.diff> <Cnn> [Cnn ...]   - run checks against a scratch copy of /repo/src with the patch applied
set -e
P=$1; shift
D=$(mktemp -d /tmp/mutXXXX)
cp -r /repo/src $D/src
(cd $D && patch -p1 -s < $P)
for pid in "$@"; do
  VERIF_REPO_SRC=$D/src timeout 1500 python3-vt /verif/check.py $pid 2>&1 | cut -c1-260 | tail -40 || true
  echo "exit=${PIPESTATUS[0]}"
done
rm -rf $D

#!/opt/veriftools/pyvenv/bin/python
"""Entry point of every check registered in MANIFEST.json.

  check.py <Cnn> [--tier quick|thorough]     decide property Cnn on /repo's current working tree
  check.py replay <path>                     re-run a recorded counterexample on the real code

Exit codes: 0 property held on everything examined; 1 violation (a line
`VIOLATION property=<id> replay=<path>` is printed); 2 undecided for a reason
that is not about the code's behaviour; 3 checker crash.

Layer P: sidecar contracts -> VCs generated from the real source by `pyvc`
         -> z3 / cvc5.  Counted as *proved* when discharged.
Layer B: the same contract texts evaluated at run time around the real
         functions, driven over enumerated small scopes.  Bounded, never
         counted as proved; also the search space for replayable inputs.
"""
from __future__ import annotations

import argparse
import hashlib
import importlib
import json
import os
import sys
import time
import traceback

HERE = os.path.dirname(os.path.abspath(__file__))
sys.path.insert(0, HERE)
REPO_SRC = os.environ.get("VERIF_REPO_SRC", "/repo/src")
sys.path.insert(0, REPO_SRC)
os.environ.setdefault("XSTATE_STATEMACHINE_VERIF", "1")

import logging  # noqa: E402

logging.disable(logging.WARNING)    # the library logs every step; keep only ERROR+ and capture those


class _Capture(logging.Handler):
    records = []

    def emit(self, record):
        try:
            _Capture.records.append(record.getMessage()[:120])
            if len(_Capture.records) > 2000:
                del _Capture.records[:1000]
        except Exception:
            pass


_lg = logging.getLogger("xstate_statemachine")
_lg.addHandler(_Capture())
_lg.propagate = False
logging.getLogger("asyncio").setLevel(logging.CRITICAL)


def load_json(path, default):
    try:
        with open(path) as fh:
            return json.load(fh)
    except FileNotFoundError:
        return default


def props_config():
    return load_json(os.path.join(HERE, "props.json"), {})


# ----------------------------------------------------------------------------- layer P
def run_P(pid, tier, world, known_regexes=()):
    from pyvc.engine import Engine
    from pyvc import smt
    eng = Engine(world)
    reports = []
    for tgt, c in world.contracts.items():
        if pid not in c.props or c.trusted or getattr(c, 'bounded_only', False):
            continue
        for t in [c.target] + c.also:
            reports.append(eng.verify(c, t))
    # an obligation may be attributed to some of its contract's properties only (label prefix -> property ids):
    # what another property owns is not this check's to discharge
    obs = []
    for r in reports:
        lp = getattr(world.contracts[r.contract], "label_props", {})
        for o in r.obligations:
            owners = next((ps for pre, ps in lp.items() if pre in o.label), None)
            if owners is None or pid in owners:
                obs.append(o)
    import re
    for o in obs:
        if any(re.search(rx, o.coarse) for rx in known_regexes):
            o.low_budget = True
    timeout = int(os.environ.get("VERIF_SMT_TIMEOUT", "40" if tier == "quick" else "120"))
    t0 = time.time()
    smt.discharge(eng.axioms(), obs, timeout_s=timeout)
    smt.close_pool()
    return eng, reports, time.time() - t0


# ----------------------------------------------------------------------------- layer B
CASE_TIMEOUT_S = int(os.environ.get("VERIF_CASE_TIMEOUT", "20"))


def _b_worker(modname, pid, tier, seed, w, W, start_from, t_end, outq):
    """Runs cases idx with idx % W == w and idx >= start_from; streams results."""
    try:
        from pyvc import rt
        from pyvc.run import load_world
        from specs.twins import TWINS
        world = load_world()
        mod = importlib.import_module(modname)
        rt.instrument(world, TWINS, only_props=getattr(mod, "CONTRACT_PROPS", [pid]))
        for idx, case in enumerate(mod.cases(tier, seed)):
            if idx % W != w or idx < start_from:
                continue
            if time.time() > t_end:
                outq.put(("budget", w, idx))
                break
            desc = mod.describe(case)
            icls = mod.input_class(case) if hasattr(mod, "input_class") else ""
            outq.put(("start", w, idx, desc, icls))
            rt.REC.reset()
            rt.REC.context = None
            extra = []
            try:
                result = mod.run_case(case)
            except Exception as e:   # an exception escaping the driver is itself an observation
                result = ("raised", type(e).__name__, str(e)[:200])
                if not getattr(mod, "EXCEPTIONS_EXPECTED", False):
                    extra.append({"key": f"{modname}/escaped:{type(e).__name__}", "detail": traceback.format_exc(limit=4)})
            try:
                if hasattr(mod, "post_check"):
                    extra += mod.post_check(case, result) or []
            except Exception as e:
                extra.append({"key": f"{modname}/oracle-error:{type(e).__name__}", "detail": traceback.format_exc(limit=4)})
            found = [{"key": v.key(), "text": v.text, "detail": v.detail, "call": v.call[1] if v.call else None}
                     for v in rt.REC.violations] + extra
            try:
                nt = bool(mod.nontrivial(case, result))
            except Exception:
                nt = False
            outq.put(("done", w, idx, found, nt, rt._short(result, 300) if nt else "", dict(rt.REC.calls)))
        outq.put(("end", w))
    except Exception:
        outq.put(("crash", w, traceback.format_exc(limit=6)))


def run_B(pid, tier, seed, world, modname, budget_s):
    import multiprocessing as mp
    import queue as _q
    mod = importlib.import_module(modname)
    ctx = mp.get_context("fork")
    W = int(os.environ.get("VERIF_PROCS", "0")) or min(12, os.cpu_count() or 4)
    W = min(W, getattr(mod, "MAX_WORKERS", W))
    outq = ctx.Queue()
    t0 = time.time()
    t_end = t0 + budget_s
    procs, current, alive = {}, {}, set()

    def spawn(w, start_from):
        p = ctx.Process(target=_b_worker, args=(modname, pid, tier, seed, w, W, start_from, t_end, outq), daemon=True)
        p.start()
        procs[w] = p
        alive.add(w)
        current.pop(w, None)

    for w in range(W):
        spawn(w, 0)
    evaluations, distinct, samples, found, calls = 0, set(), [], [], {}
    exhaustive, crashes = True, []
    while alive:
        try:
            msg = outq.get(timeout=1.0)
        except _q.Empty:
            msg = None
        now = time.time()
        if msg is not None:
            kind, w = msg[0], msg[1]
            if kind == "start":
                current[w] = (msg[2], msg[3], msg[4], now)
            elif kind == "done":
                _, _, idx, vs, nt, short, cc = msg
                cur = current.pop(w, None)
                evaluations += 1
                desc, icls = (cur[1], cur[2]) if cur else (None, "")
                for v in vs:
                    v.setdefault("case", desc)
                    v.setdefault("input_class", icls)
                    found.append(v)
                if nt:
                    distinct.add(hashlib.sha1(json.dumps(desc, sort_keys=True, default=str).encode()).hexdigest())
                    if len(samples) < 4:
                        samples.append({"case": desc, "result": short})
                for k, n_ in cc.items():
                    calls[k] = max(calls.get(k, 0), n_)
            elif kind == "budget":
                exhaustive = False
            elif kind == "end":
                alive.discard(w)
            elif kind == "crash":
                crashes.append(msg[2])
                alive.discard(w)
        # watchdog
        for w in list(alive):
            cur = current.get(w)
            if cur and now - cur[3] > CASE_TIMEOUT_S:
                procs[w].kill()
                procs[w].join(1)
                evaluations += 1
                found.append({"key": f"{modname}/hang:case-exceeded-{CASE_TIMEOUT_S}s", "detail": "the real code did not return / starved the event loop",
                              "case": cur[1], "input_class": cur[2]})
                if time.time() < t_end:
                    spawn(w, cur[0] + 1)
                else:
                    alive.discard(w)
                    exhaustive = False
            elif not procs[w].is_alive() and outq.empty():
                alive.discard(w)
    for p in procs.values():
        if p.is_alive():
            p.kill()
    if crashes:
        raise RuntimeError("bounded worker crashed:\n" + crashes[0])
    return {
        "module": modname, "evaluations": evaluations, "distinct_nontrivial": len(distinct),
        "samples": samples, "violations": found, "exhaustive": exhaustive,
        "wall_s": round(time.time() - t0, 2), "contract_calls": calls,
        "bound": getattr(mod, "BOUND", ""), "rule": getattr(mod, "RULE", ""),
    }


# ----------------------------------------------------------------------------- main check
def write_replay(pid, n, payload):
    d = os.path.join(HERE, "replays", pid)
    os.makedirs(d, exist_ok=True)
    path = os.path.join(d, f"violation_{n}.json")
    with open(path, "w") as fh:
        json.dump(payload, fh, indent=1, default=str)
    return path


def check(pid, tier):
    t_start = time.time()
    seed = int(os.environ.get("VERIF_SEED", "0"))
    cfg = props_config().get(pid)
    if cfg is None:
        print(f"property {pid} is not claimed (see MANIFEST.json not_applicable)")
        return 2
    from pyvc.run import load_world
    world = load_world()
    known = [k for k in load_json(os.path.join(HERE, "known_findings.json"), {"findings": []})["findings"]
             if k.get("property") == pid and k.get("status", "open") == "open"]
    lock = load_json(os.path.join(HERE, "obligations.lock"), {}).get(pid, {})

    import shutil
    shutil.rmtree(os.path.join(HERE, "replays", pid), ignore_errors=True)

    # ---- P
    eng, reports, solver_wall = run_P(pid, tier, world, known_regexes=[k["key_regex"] for k in known if "key_regex" in k and not k.get("input_class_contains")])
    # an obligation may be attributed to some of its contract's properties only (label prefix -> property ids)
    vcs = []
    for r in reports:
        lp = getattr(world.contracts[r.contract], "label_props", {})
        for o in r.obligations:
            owners = next((ps for pre, ps in lp.items() if pre in o.label), None)
            if owners is None or pid in owners:
                vcs.append(o)
    cover = [o for o in vcs if o.expect_fail]
    real = [o for o in vcs if not o.expect_fail]
    failed = [o for o in real if o.status != "discharged"]
    vacuous = [o for o in cover if o.status == "discharged"]
    fn_errors = [r for r in reports if r.error]
    coarse_now = {}
    for o in real:
        coarse_now.setdefault(o.coarse, []).append(o)
    # vacuity guards: (1) every postcondition of every contract was generated on some path of every body;
    # (2) the number of obligations did not collapse w.r.t. the committed lock (informational threshold: half)
    missing = [f"{r.target.split(':')[1]}/post:{lab} (never generated)" for r in reports for lab in getattr(r, "untouched", [])]
    if lock.get("obligations") and len(coarse_now) * 2 < len(lock["obligations"]):
        missing.append(f"obligation count collapsed: {len(coarse_now)} now vs {len(lock['obligations'])} locked")

    if os.environ.get("VERIF_UPDATE_LOCK") == "1" and "VERIF_REPO_SRC" not in os.environ:
        lk = load_json(os.path.join(HERE, "obligations.lock"), {})
        lk[pid] = {"obligations": sorted(c for c, os_ in coarse_now.items() if all(o.status == "discharged" for o in os_)),
                   "functions": sorted(r.target for r in reports)}
        with open(os.path.join(HERE, "obligations.lock"), "w") as fh:
            json.dump(lk, fh, indent=1, sort_keys=True)

    # ---- B
    bounded = []
    # every check that relies on proofs also validates the axioms those proofs use on machines built by the real constructors
    drivers = list(cfg.get("bounded", [])) + (["bounded.axioms"] if reports else [])
    for modname in drivers:
        budget = cfg.get("budget_s", {}).get(tier, 60 if tier == "quick" else 600)
        bounded.append(run_B(pid, tier, seed, world, modname, budget))

    # ---- verdicts
    lines = []
    violations = []
    known_hit = {}

    import re

    def is_known(key, input_class):
        for k in known:
            if "key" in k and k["key"] != key:
                continue
            if "key_regex" in k and not re.search(k["key_regex"], key):
                continue
            need = k.get("input_class_contains")
            if need and need not in (input_class or "").split(","):
                continue
            return k
        return None

    for b in bounded:
        for v in b["violations"]:
            k = is_known(v["key"], v.get("input_class", ""))
            if k:
                known_hit.setdefault(k["id"], []).append(v)
            else:
                violations.append({"source": "bounded", **v})
    p_fail_records = []
    not_attempted = [o for o in failed if o.backend == "not-attempted"]
    if not_attempted:
        lines.append(f"NOTE: {len(not_attempted)} further obligation(s) were not attempted beyond the short solver rounds once a failure was confirmed "
                     f"(undecided, not reported as violations): e.g. {sorted({o.coarse for o in not_attempted})[:3]}")
    for o in failed:
        if o.backend == "not-attempted":
            continue
        k = is_known(o.coarse, "")
        if k:
            known_hit.setdefault(k["id"], []).append({"key": o.coarse})
            continue
        p_fail_records.append(o)
    for k in known:
        if k["id"] in known_hit:
            lines.append(f"KNOWN-FINDING: property={pid} {k['what']}")
        elif k.get("must_reproduce", True):
            # a listed finding that no longer reproduces is reported (not an alarm): the entry is stale
            lines.append(f"NOTE: known finding {k['id']} did not reproduce in this run")

    n = 0
    # P failures: look for a concrete failing input among the bounded violations of the same function
    seen_coarse = set()
    for o in p_fail_records:
        if o.coarse in seen_coarse:
            continue
        seen_coarse.add(o.coarse)
        fnshort = o.fn
        conc = [v for v in violations if v["source"] == "bounded" and v["key"].startswith(fnshort + "/")]
        payload = {"property": pid, "kind": "obligation", "obligation": o.coarse, "vc": o.oid, "status": o.status,
                   "backend": o.backend, "solver_info": o.info, "line": o.line, "label": o.label,
                   "model": o.model, "smt2_head": (o.smt2 or "")[-3000:]}
        if conc:
            payload["failing_input"] = conc[0]
            path = write_replay(pid, n, payload)
            lines.append(f"VIOLATION property={pid} replay={path}")
        else:
            path = write_replay(pid, n, payload)
            lines.append(f"VIOLATION property={pid} replay={path} obligation={o.coarse} no-failing-input-found")
        n += 1
    seen_keys = set()
    for v in violations:
        if v["source"] == "bounded":
            if any(v["key"].startswith(o.fn + "/") for o in p_fail_records):
                continue
            if v["key"] in seen_keys:
                continue
            seen_keys.add(v["key"])
            path = write_replay(pid, n, {"property": pid, "kind": "bounded", **v})
            lines.append(f"VIOLATION property={pid} replay={path}")
            n += 1
    for o in vacuous:
        path = write_replay(pid, n, {"property": pid, "kind": "vacuity", "obligation": o.coarse})
        lines.append(f"CHECK-ERROR vacuous precondition in {o.fn} ({path})")
    undecided = bool(fn_errors or missing or vacuous)
    for r in fn_errors:
        lines.append(f"UNDECIDED {r.target}: {r.error}")
    for m in missing:
        lines.append(f"UNDECIDED obligation vanished: {m}")

    nviol = sum(1 for l in lines if l.startswith("VIOLATION"))
    # a function the engine can no longer read + nothing found by B: report as violation of the locked obligations
    if nviol == 0 and (fn_errors or missing) and lock:
        for r in fn_errors:
            path = write_replay(pid, n, {"property": pid, "kind": "unreadable-function", "target": r.target, "error": r.error})
            lines.append(f"VIOLATION property={pid} replay={path} obligation={r.target.split(':')[1]}/* no-failing-input-found")
            n += 1
            nviol += 1

    # ---- layer L (thorough tier): re-check the Lean proofs of the tree axioms used by this property's VCs
    lean = None
    if tier == "thorough" and real and any("lean:" in a.trusted for a in world.axioms):
        import subprocess
        t0 = time.time()
        try:
            pr = subprocess.run(["lean", os.path.join(HERE, "lean", "TreeTheory.lean")], capture_output=True, text=True, timeout=900)
            lean = {"cmd": "lean lean/TreeTheory.lean", "exit": pr.returncode, "errors": (pr.stdout + pr.stderr)[-500:], "wall_s": round(time.time() - t0, 1)}
        except Exception as e:
            lean = {"cmd": "lean lean/TreeTheory.lean", "exit": -1, "errors": repr(e)}
        if lean["exit"] != 0:
            lines.append(f"CHECK-ERROR lean re-check of the tree axioms failed: {lean['errors'][-200:]}")
            undecided = True

    # ---- evidence
    level = cfg.get("level", "proof")
    fns = [{"target": r.target, "path": r.path, "lines": r.lines, "sha256": r.sha256, "dropped": r.dropped,
            "vcs": len([o for o in r.obligations if not o.expect_fail]), "paths": r.paths, "error": r.error}
           for r in reports]
    backends = {}
    for o in real:
        if o.status == "discharged":
            backends[o.backend] = backends.get(o.backend, 0) + 1
    # the trusted base of THIS property's proofs: the axioms, plus every contract the verified bodies called that is
    # not itself proved (assumed outright, or only checked at run time), plus assumed clauses of proved contracts
    used = {t for r in reports for t in getattr(r, "used_contracts", [])} | {c.target for c in world.contracts.values() if pid in c.props}
    ucs = [c for c in list(world.contracts.values()) + list(getattr(world, "user_effects", {}).values()) if c.target in used]
    trusted = [f"{a.name}: {a.trusted}" for a in world.axioms] + \
              [f"assumed contract {c.target}: {c.trusted}" for c in ucs if c.trusted] + \
              [f"assumed contract {c.target}: bounded only - its clauses are evaluated around the real function at run time (layer B), not proved; callers under proof rely on them"
               for c in ucs if getattr(c, "bounded_only", False)] + \
              [f"assumed clause of {c.target}: {lab[7:]} (relied on by verified callers, not proved for this body; checked at run time by the bounded layer)"
               for c in ucs if not c.trusted for lab, _ in c.ensures if lab.startswith("assume:")] + \
              [f"assumed exceptional clause of {c.target}: on {r.exc}: {e[7:]}"
               for c in ucs if not c.trusted for r in c.raises for e in r.ensures if e.startswith("assume:")] + \
              [f"termination not claimed for {c.target}: {c.nonterminating}" for c in ucs if getattr(c, "nonterminating", None)] + \
              (["model:user_action: what a user action may do (A-user-action)"] if any(getattr(world.contracts.get(t), "user_effect", None) for t in used if t in world.contracts) else [])
    samples = [{"obligation": o.oid, "status": o.status, "backend": o.backend, "time_s": round(o.time_s, 2)} for o in real[:6]]
    bsum = [{k: v for k, v in b.items() if k != "violations"} | {"violations": len(b["violations"])} for b in bounded]
    coverage = {
        "obligations": len(real), "discharged": len(real) - len(failed),
        "coarse_obligations": len(coarse_now),
        "checker_cmd": f"python3-vt /verif/check.py {pid} --tier {tier}  (pyvc VC generator -> z3 4.x python wheel, cvc5 1.0.3 binary for z3's unknowns)",
        "trusted_base": trusted,
        "functions_under_contract": fns,
        "backends": backends,
        "solver_time_s": round(sum(o.time_s for o in vcs), 2), "solver_wall_s": round(solver_wall, 2),
        "cover_obligations": len(cover), "vacuous": len(vacuous),
        "samples": samples,
        "bounded": bsum,
        "lean_recheck": lean,
        "syntactically_discharged": getattr(eng, "syntactic", 0),
        "known_findings": [{"id": k["id"], "what": k["what"], "reproduced": k["id"] in known_hit} for k in known],
        "carved_out_obligations": sorted({v["key"] for vs in known_hit.values() for v in vs}),
    }
    if level != "proof" or not real:
        ev_n = sum(b["evaluations"] for b in bounded)
        dn = sum(b["distinct_nontrivial"] for b in bounded)
        coverage.update({"evaluations": ev_n, "distinct_nontrivial": dn,
                         "rule": "; ".join(b["rule"] for b in bounded if b["rule"]),
                         "exhaustive": all(b["exhaustive"] for b in bounded) if bounded else False,
                         "explanation": cfg.get("explanation") or (
                             f"mixed evidence. Layer P (deductive, counted as proved): {len(real) - len(failed)} of {len(real)} verification "
                             f"conditions discharged for {len(reports)} function bodies "
                             f"({', '.join(sorted({r.target.split(':')[1] for r in reports})) or 'none yet'}). "
                             f"Layer B (bounded, never counted as proved): {ev_n} cases run on the real code under run-time contracts / "
                             f"oracles written from the property statement ({'; '.join(b['bound'] for b in bounded if b['bound'])}); "
                             f"{dn} distinct non-trivial cases. Known findings are carved out by input class and replayed on every run.")})
        bs = [s for b in bounded for s in b["samples"]]
        if bs:
            coverage["samples"] = bs + samples
    evidence = {
        "property_id": pid, "tier": tier, "seed": seed, "level": level, "coverage": coverage,
        "assumptions": list(world.assumptions) + cfg.get("assumptions", []),
        "wall_s": round(time.time() - t_start, 2), "violations": nviol,
    }
    # evidence describes /repo itself: a run against a scratch copy (VERIF_REPO_SRC, used for mutation experiments)
    # writes its report next to the replays instead, never over the committed evidence
    ev_dir = os.path.join(HERE, "evidence") if "VERIF_REPO_SRC" not in os.environ else os.path.join(HERE, "replays", "scratch-evidence")
    os.makedirs(ev_dir, exist_ok=True)
    with open(os.path.join(ev_dir, f"{pid}.json"), "w") as fh:
        json.dump(evidence, fh, indent=1, default=str)

    for l in lines:
        print(l)
    print(f"{pid} [{tier}] P: {len(real) - len(failed)}/{len(real)} VCs discharged over {len(reports)} function bodies "
          f"({len(coarse_now)} obligations); B: {sum(b['evaluations'] for b in bounded)} cases, "
          f"{sum(len(b['violations']) for b in bounded)} contract violations; "
          f"{len(known_hit)} known finding(s); {time.time() - t_start:.1f}s")
    if nviol:
        return 1
    if undecided:
        return 2
    return 0


def update_lock(pid):
    from pyvc.run import load_world
    world = load_world()
    eng, reports, _ = run_P(pid, "quick", world)
    coarse = sorted({o.coarse for r in reports for o in r.obligations if not o.expect_fail and o.status == "discharged"})
    path = os.path.join(HERE, "obligations.lock")
    lock = load_json(path, {})
    lock[pid] = {"obligations": coarse, "functions": sorted(r.target for r in reports)}
    with open(path, "w") as fh:
        json.dump(lock, fh, indent=1, sort_keys=True)
    bad = [o.oid for r in reports for o in r.obligations if not o.expect_fail and o.status != "discharged"]
    print(f"{pid}: locked {len(coarse)} obligations; {len(bad)} VCs not discharged", bad[:10])


def replay(path):
    rec = load_json(path, None)
    if rec is None:
        print("no such replay file")
        return 3
    print(json.dumps({k: v for k, v in rec.items() if k not in ("smt2_head",)}, indent=1, default=str)[:4000])
    case = rec.get("case") or (rec.get("failing_input") or {}).get("case")
    modname = None
    key = rec.get("key") or (rec.get("failing_input") or {}).get("key")
    cfg = props_config().get(rec.get("property"), {})
    if case is None:
        print("no concrete input recorded for this violation (no-failing-input-found)")
        return 1
    from pyvc.run import load_world
    from pyvc import rt
    from specs.twins import TWINS
    world = load_world()
    for modname in cfg.get("bounded", []):
        mod = importlib.import_module(modname)
        if not hasattr(mod, "from_description"):
            continue
        try:
            c = mod.from_description(case)
        except Exception:
            continue
        rt.instrument(world, TWINS, only_props=getattr(mod, "CONTRACT_PROPS", [rec["property"]]))
        rt.REC.reset()
        extra = []
        try:
            res = mod.run_case(c)
        except Exception as e:
            res = ("raised", type(e).__name__, str(e)[:200])
        if hasattr(mod, "post_check"):
            extra = mod.post_check(c, res) or []
        rt.uninstrument()
        keys = [v.key() for v in rt.REC.violations] + [x["key"] for x in extra]
        print("replayed on the real code:", "result =", rt._short(res), "violations =", keys)
        return 1 if keys else 0
    print("no driver could rebuild this case")
    return 1


def main():
    ap = argparse.ArgumentParser()
    ap.add_argument("what")
    ap.add_argument("arg", nargs="?")
    ap.add_argument("--tier", default=os.environ.get("VERIF_TIER", "quick"))
    a = ap.parse_args()
    try:
        if a.what == "replay":
            return replay(a.arg)
        if a.what == "lock":
            update_lock(a.arg)
            return 0
        return check(a.what, a.tier)
    except SystemExit:
        raise
    except Exception:
        traceback.print_exc()
        return 3


if __name__ == "__main__":
    sys.exit(main())
